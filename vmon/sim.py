"""Lane L1 "SIM": all parent-side pool code is real (Pool, ApplyResult,
MapResult, IMap*, ResultHandler handlers, _join_exited_workers,
_maintain_pool, TimeoutHandler.handle_timeouts, TaskHandler.body,
LaxBoundedSemaphore, restart_state, the real pipes and shared counters); the
*workers* are scripted state machines, the clock is virtual, signals go to a
recorder, and a seeded scheduler picks every next action.

The pool runs in its supported event-loop mode (threads=False): the harness
calls handle_result_event(), _maintain_pool() and the timeout handler's
handle_event() itself, so parent actions are serial and replayable.

Oracles (one engine serves C01 C04 C05 C06 C09 C10 C11; every violation names
the properties it refutes):
  * expected-effects model of the parent's obligations, derived from the
    property statements, evaluated around every parent step;
  * provenance over unique job tags (every outcome justified by an earlier
    event of the same job), stability of observed outcomes, callback counts;
  * conservation (slots, consumed-result counters, pool size, signals).
"""
import errno
import os
import signal
import threading
import time
import traceback

FAKE_PID0 = 5_000_000
ABNORMAL = [-9, -11, -6, -7, -8, -4, 1, 2, 70, 255, -40, -64]   # (40, 64: real-time signals, no name)
CLEANISH = [0, 155]


class Propagated(Exception):
    """raised by a result callback and listed in callbacks_propagate: the
    pool lets it through to whoever drives the result handler"""


class HarnessError(Exception):
    pass


def unwrap(e):
    if type(e).__name__ == 'ExceptionWithTraceback':
        return getattr(e, 'exc', e)
    return e


class VClock:
    def __init__(self, t0=1000.0):
        self.t = t0

    def __call__(self):
        return self.t


class OsProxy:
    """stands in for the `os` module inside billiard.pool"""

    def __init__(self, sim):
        self._sim = sim

    def __getattr__(self, name):
        return getattr(os, name)

    def getpgid(self, pid):
        if pid >= FAKE_PID0:
            w = self._sim.by_pid.get(pid)
            if w is None or w.reaped:
                raise ProcessLookupError(errno.ESRCH, 'No such process')
            return 1
        return os.getpgid(pid)

    def kill(self, pid, sig):
        return self._sim.kill(pid, sig, 'os.kill')

    def killpg(self, pgid, sig):
        return self._sim.kill(pgid, sig, 'os.killpg')


class StubPopen:
    method = 'stub'
    sentinel = None

    def __init__(self, sim, process_obj):
        self.sim = sim
        self.returncode = None
        self.pid = sim.new_pid()
        self.proc = process_obj
        sim.register(self)

    def poll(self, flag=0):
        return self.returncode

    def wait(self, timeout=None):
        if self.returncode is None:
            if timeout is None:
                raise HarnessError('pool code would block forever joining a live stub worker')
            self.sim.on_wait(self, timeout)
        return self.returncode

    def terminate(self):
        if self.returncode is None:
            self.sim.kill(self.pid, signal.SIGTERM, 'Process.terminate')

    def close(self):
        pass


class W:
    """scripted worker"""

    def __init__(self, popen, maxtasks):
        self.popen = popen
        self.pid = popen.pid
        self.state = 'idle'       # idle | has_task | acked | exiting
        self.task = None          # (jid, i)
        self.executed = 0
        self.ready_sent = 0
        self.maxtasks = maxtasks
        self.termed = False
        self.term_via = None
        self.lingers = False
        self.reaped = False
        self.exit_vt = None
        self.soft_signals = []
        self.acked_jobs = []
        self.exit_reason = None
        self.death_sent = False
        self.victim = False       # shrink victim (controlled termination)
        self.exiting_since = None
        self.job_terminated = False

    @property
    def alive(self):
        return self.popen.returncode is None


class JobRec:
    def __init__(self, kind, handle, jid, nparts):
        self.kind, self.h, self.jid, self.nparts = kind, handle, jid, nparts
        self.outcomes = {}        # i -> ('ok', value) | ('exc', name)
        self.parts = {i: {'sent': True, 'taker': None, 'ack_proc': None,
                          'ready_proc': False, 'ready_sent': False, 'ack_sent': False}
                      for i in range(nparts)}
        self.T = None
        self.hard = None
        self.soft = None
        self.slot = False
        self.cb_raises = False
        self.discarded = False
        self.lost_mark = None     # (vt, status, pid)   model
        self.must = None          # outcome class the model requires once resolved
        self.obs = None           # first observed outcome
        self.obs_step = None
        self.cb = {'ok': 0, 'err': 0, 'accept': 0, 'timeout': []}
        self.soft_sent = 0
        self.send_failed = set()
        self.chunk = None
        self.items = None
        self.yielded = []         # imap consumer view
        self.finished = False     # imap: StopIteration seen
        self.expected_value = None
        self.unsent = False
        self.t_acc = None
        self.owner = None
        self.ack_after_reap = False
        self.excused = False
        self.loss_base = 0
        self.loss_marks_total = 0
        self.reaped_later = False
        self.result_phase = None
        self.multi_loss_ever = False

    def owners_unfinished(self):
        return {p['ack_proc'][0] for p in self.parts.values()
                if p['ack_proc'] and not p['ready_proc'] and not p.get('lost_done')}

    def all_owners(self):
        return {p['ack_proc'][0] for p in self.parts.values() if p['ack_proc']}


class Sim:
    def __init__(self, rng, prof, rec, attrs=None):
        self.rng, self.prof, self.rec = rng, prof, rec
        self.attrs = dict(attrs or {})
        self.clock = VClock()
        self.step_no = 0
        self.hist = []            # compact action log
        self.keep_alive = []
        self.workers = []
        self.by_pid = {}
        self.jobs = {}
        self.pending = []         # TASK messages read off the in-queue, FIFO
        self.out_sent = 0
        self.out_proc = 0
        self.sent_msgs = []       # messages written to the out-queue (for dups)
        self.signals = []         # (step, vt, pid, sig, via)
        self.created = []         # (step, live_before, target_at)
        self.next_pid = [None]
        self.limiter_raised = False
        self.closed = False
        self.target = prof['n']
        self.had_exit = False
        self.violated = False
        self.kinds = set()
        self.n_viol = 0
        self.inflight_max = 0
        self.model_R = 0
        self.model_T0 = None
        self.admitted_log = []
        self.stats = {}
        self._patched = []
        self.sent_fifo = []       # (msg, is_dup) in pipe order
        self.ready_sender = {}
        self.draining = False
        self.ups = 0
        self.downs = []

    # ---------------------------------------------------------------- util
    def log(self, *a):
        self.hist.append((self.step_no,) + a)

    def viol(self, props, kind, extra_attrs=None, **detail):
        self.violated = True
        self.kinds.add(kind)
        self.n_viol += 1
        attrs = dict(self.attrs)
        attrs.update(extra_attrs or {})
        attrs['props'] = sorted(props)
        di = getattr(self, 'drain_idx', None)
        if di is None:
            tail = self.hist[-70:]
        else:
            tail = self.hist[max(0, di - 55):di + 1] + self.hist[di + 1:][-15:]
        detail['history_tail'] = [list(map(str, h)) for h in tail]
        detail['vt'] = self.clock.t
        detail['step'] = self.step_no
        if self.n_viol <= 6:
            self.rec.violation(kind, attrs, **detail)

    def stat(self, k, n=1):
        self.stats[k] = self.stats.get(k, 0) + n

    def new_pid(self):
        if self.next_pid[0] is None:
            self.next_pid[0] = FAKE_PID0 + self.rng.randrange(1000) * 100
        self.next_pid[0] += 1
        return self.next_pid[0]

    # ------------------------------------------------------------- set-up
    def build(self):
        import billiard.pool as bp
        import billiard.common as bc
        from billiard import context
        self.bp = bp
        sim = self
        self._patch(bp, 'monotonic', self.clock)
        self._patch(bc, 'monotonic', self.clock)
        self._patch(bp, 'os', OsProxy(self))
        self._patch(bp, '_kill', lambda pid, sig: sim.kill(pid, sig, 'pool._kill'))
        # every history is a fresh program: job ids start at 0 again (job 0
        # is special-cased by more than one historical defect)
        import itertools
        self._patch(bp, 'job_counter', itertools.count())

        class StubProc(context.ForkProcess):
            @staticmethod
            def _Popen(process_obj):
                return StubPopen(sim, process_obj)

        class SimPool(bp.Pool):
            def Process(self, *a, **kw):
                return StubProc(*a, **kw)

            def _create_worker_process(self, i):
                live = sum(1 for w in sim.workers if w.alive and not w.reaped)
                sim.created.append((sim.step_no, live, sim.target))
                if not sim.in_init and live >= sim.target:
                    sim.viol({'C09'}, 'worker_created_at_or_above_target',
                             live=live, target=sim.target)
                return bp.Pool._create_worker_process(self, i)

        p = self.prof
        self.in_init = True
        kw = dict(processes=p['n'], maxtasksperchild=p.get('maxtasks'),
                  timeout=p.get('pool_hard'), soft_timeout=p.get('pool_soft'),
                  lost_worker_timeout=p.get('T', 3.0),
                  max_restarts=p.get('max_restarts'),
                  max_restart_freq=p.get('max_restart_freq', 1),
                  threads=False, putlocks=(p.get('putlocks') is True),
                  on_process_up=self._on_up, on_process_down=self._on_down,
                  on_timeout_set=self._on_tset, on_timeout_cancel=self._on_tcancel)
        self.pool = SimPool(**kw)
        self.in_init = False
        self.pool._task_handler.start()
        self.sem = self.pool._putlock

    def _patch(self, mod, name, val):
        self._patched.append((mod, name, getattr(mod, name)))
        setattr(mod, name, val)

    def teardown(self):
        pool = self.pool
        try:
            pool._terminate.cancel()
        except Exception:
            pass
        try:
            pool._task_handler._state = 2
            pool._taskqueue.put(None)
            for w in self.workers:
                if w.alive:
                    w.popen.returncode = -9
            pool._task_handler.join(2)
            # drain so the feeder never blocks, then close the pipes
            for q in (pool._inqueue, pool._outqueue):
                for c in (q._reader, q._writer):
                    try:
                        c.close()
                    except Exception:
                        pass
        finally:
            for mod, name, old in reversed(self._patched):
                setattr(mod, name, old)
            from billiard import process as bproc
            for c in list(bproc._children):
                if isinstance(getattr(c, '_popen', None), StubPopen):
                    bproc._children.discard(c)

    # ---------------------------------------------------------- callbacks
    def _on_up(self, proc):
        self.ups += 1

    def _on_down(self, proc):
        self.downs.append(proc.pid)

    def _on_tset(self, job, soft, hard):
        self.stat('on_timeout_set')

    def _on_tcancel(self, job):
        self.stat('on_timeout_cancel')

    # ----------------------------------------------------- stub plumbing
    def register(self, popen):
        mt = getattr(popen.proc._target, 'maxtasks', None)
        w = W(popen, mt)
        w.lingers = self.rng.random() < self.prof.get('p_linger', 0.3)
        self.workers.append(w)
        self.by_pid[w.pid] = w

    def kill(self, pid, sig, via):
        w = self.by_pid.get(pid)
        self.signals.append((self.step_no, self.clock.t, pid, int(sig), via,
                             self.cur_step_kind))
        self.log('signal', pid, int(sig), via)
        if pid < FAKE_PID0:
            raise HarnessError('pool tried to signal real pid %r' % pid)
        if w is None or not w.alive:
            raise ProcessLookupError(errno.ESRCH, 'No such process')
        self.check_signal(w, int(sig), via)
        if sig == signal.SIGKILL:
            self.exit(w, -9, 'KILL')
        elif sig == signal.SIGTERM:
            w.termed = True
            w.term_via = via
        elif sig == signal.SIGUSR1:
            w.soft_signals.append((self.step_no, w.task))

    def on_wait(self, popen, timeout):
        """pool code waits `timeout` for a TERM'd stub: obedient ones exit"""
        w = self.by_pid[popen.pid]
        if w.termed and not w.lingers:
            self.exit(w, self.rng.choice([15, -15]), 'TERM')

    def exit(self, w, status, reason):
        if not w.alive:
            return
        w.popen.returncode = status
        w.exit_vt = self.clock.t
        w.exit_reason = reason
        self.had_exit = True
        if w.state == 'has_task' and w.task and w.task[0] in self.jobs:
            # died between reading a task and acknowledging it: outside the
            # properties' precondition (only the pool's own signals do this
            # in SIM); the job is excused from the termination check
            self.jobs[w.task[0]].excused = True
            self.stat('excused_died_before_ack')
        self.log('exit', w.pid, status, reason, w.state, w.task)
        self.stat('exit:' + reason)

    def send(self, msg, dup=False):
        self.pool._outqueue.put(msg)
        self.out_sent += 1
        self.sent_fifo.append((msg, dup))
        if not dup and msg[0] in (0, 1):
            self.sent_msgs.append(msg)

    # -------------------------------------------------------- observation
    def classify(self, exc):
        from billiard import exceptions as bex
        e = unwrap(exc)
        if isinstance(e, bex.WorkerLostError):
            return ('lost', str(e))
        if isinstance(e, bex.TimeLimitExceeded):
            return ('tle', repr(e.args))
        if isinstance(e, bex.Terminated):
            return ('term', repr(e.args))
        if isinstance(e, KeyError) and e.args and str(e.args[0]).startswith('task-exc'):
            return ('exc', str(e.args[0]))
        return ('other', type(e).__name__ + ':' + repr(e)[:200])

    def observe(self, j):
        """client-boundary view of a handle"""
        from billiard.exceptions import TimeoutError as BTimeout
        if j.kind in ('apply', 'map'):
            if not j.h.ready():
                return None
            try:
                v = j.h.get(0)
            except BTimeout:
                return ('ready_but_get_timed_out',)
            except BaseException as exc:
                return self.classify(exc)
            return ('ok', repr(v))
        # imap: drain what is available, as a consumer would
        while not j.finished:
            try:
                v = j.h.next(timeout=0)
            except StopIteration:
                j.finished = True
                break
            except BTimeout:
                break
            except Exception as exc:
                inner = exc.args[0] if exc.args else exc
                e = getattr(inner, 'exception', inner)
                j.yielded.append(self.classify(e))
            else:
                j.yielded.append(('ok', repr(v)))
        return ('imap', len(j.yielded), j.finished)

    def sample_all(self, changed_allowed):
        """stability + attribution after every step.  changed_allowed: jids
        that this step was allowed to resolve/advance."""
        for j in self.jobs.values():
            o = self.observe(j)
            if j.kind in ('apply', 'map'):
                if j.obs is None:
                    if o is not None:
                        j.obs, j.obs_step = o, self.step_no
                        self.log('resolved', j.jid, o[0])
                        if j.jid not in changed_allowed and j.must != 'gaveup' \
                                and not j.send_failed:   # (reported by the handler thread)
                            self.viol({'C01'}, 'job_resolved_by_unrelated_step',
                                      {'job_kind': j.kind}, job=j.jid, outcome=o,
                                      step_kind=self.cur_step_kind)
                        self.check_outcome(j, o)
                elif o != j.obs:
                    self.viol({'C01'}, 'outcome_changed_after_observable',
                              {'job_kind': j.kind}, job=j.jid, first=j.obs, now=o)
            cbs = j.cb['ok'] + j.cb['err']
            if cbs > 1:
                self.viol({'C01'}, 'callbacks_fired_more_than_once',
                          {'job_kind': j.kind}, job=j.jid, cb=dict(j.cb))
                j.cb['ok'] = j.cb['err'] = 0   # report once

    # the outcome must be justified by an event of the same job
    def check_outcome(self, j, o):
        from vmon.hstatus import human_status, names_status
        kind = o[0]
        if j.discarded:
            return
        if kind == 'ok':
            if j.kind == 'apply':
                p = j.parts[0]
                want = ('ok', repr(j.outcomes[0][1])) if j.outcomes[0][0] == 'ok' else None
                if not p['ready_proc'] or o != want:
                    self.viol({'C01'}, 'value_not_justified', {'job_kind': j.kind},
                              job=j.jid, got=o, scripted=j.outcomes[0],
                              ready_processed=p['ready_proc'])
            else:
                if not all(p['ready_proc'] for p in j.parts.values()) or \
                        o[1] != repr(j.expected_value):
                    self.viol({'C01', 'C02'}, 'map_value_not_justified',
                              {'job_kind': j.kind}, job=j.jid, got=o,
                              want=repr(j.expected_value))
        elif kind == 'exc':
            ok = any(j.outcomes[i] == ('exc', o[1]) and p['ready_proc']
                     for i, p in j.parts.items())
            if not ok:
                self.viol({'C01'}, 'task_exception_attached_to_wrong_job',
                          {'job_kind': j.kind}, job=j.jid, got=o)
        elif kind == 'lost':
            lm = j.lost_mark
            if lm is None and j.must == 'gaveup':
                pass          # lateness already reported once for this job
            elif lm is None:
                # (a job failed although only workers that had finished their part
                # of it left - e.g. on schedule - is also "harm done by recycling")
                recycled = any(self.by_pid[p].popen.returncode in (0, 155)
                               for p in j.all_owners() if not self.by_pid[p].alive)
                self.viol({'C04', 'C01'} | ({'C09'} if recycled else set()),
                          'loss_reported_without_lost_owner',
                          {'job_kind': j.kind, 'owners_finished_exited':
                           bool(j.all_owners() - j.owners_unfinished())},
                          job=j.jid, msg=o[1],
                          owners={pid: (self.by_pid[pid].popen.returncode)
                                  for pid in j.all_owners()})
            else:
                vt, status, pid = lm
                if self.clock.t - vt < j.T:
                    self.viol({'C04'} | ({'C09'} if status in (0, 155) else set()),
                              'loss_reported_before_grace_period',
                              {'job_kind': j.kind}, job=j.jid, noticed=vt,
                              now=self.clock.t, T=j.T)
                legal = {human_status(self.by_pid[p].popen.returncode)
                         for p in j.all_owners()
                         if not self.by_pid[p].alive}
                if not any(names_status(o[1], self.by_pid[p].popen.returncode)
                           for p in j.all_owners() if not self.by_pid[p].alive) \
                        or ('Job: %d' % j.jid) not in o[1]:
                    self.viol({'C04'}, 'loss_message_wrong_status_or_job',
                              {'job_kind': j.kind, 'ack_after_reap': j.ack_after_reap},
                              job=j.jid, msg=o[1],
                              legal=sorted(legal))
        elif kind == 'tle':
            if j.hard is None or j.t_acc is None or self.clock.t < j.t_acc + j.hard:
                self.viol({'C05', 'C01'}, 'time_limit_reported_but_not_expired',
                          {'job_kind': j.kind}, job=j.jid, hard=j.hard,
                          t_acc=j.t_acc, now=self.clock.t)
            elif o[1] != repr((j.hard,)):
                self.viol({'C05'}, 'time_limit_wrong_value', {'job_kind': j.kind},
                          job=j.jid, got=o[1], hard=j.hard)
        elif kind == 'term':
            owners = j.all_owners()
            if not any(self.by_pid[p].job_terminated for p in owners):
                self.viol({'C08', 'C01'}, 'terminated_without_terminate_job',
                          {'job_kind': j.kind}, job=j.jid)
        elif kind == 'other':
            if not j.send_failed:
                self.viol({'C01'}, 'unexpected_outcome', {'job_kind': j.kind},
                          job=j.jid, got=o)
        else:
            self.viol({'C01'}, 'unexpected_outcome', {'job_kind': j.kind},
                      job=j.jid, got=o)

    # ---------------------------------------------------------- semaphore
    def sem_value(self):
        with self.sem._cond:
            return self.sem._value, self.sem._initial_value

    def check_sem(self):
        v, b = self.sem_value()
        self.stat('sem_reads')
        if v < 0 or v > b:
            self.viol({'C10'}, 'slot_semaphore_out_of_bounds', value=v, bound=b)
        if b != self.target:
            self.viol({'C10'}, 'slot_bound_differs_from_pool_size',
                      bound=b, target=self.target)
        if self.prof.get('putlocks') and self.prof.get('slot_only'):
            inflight = sum(1 for j in self.jobs.values()
                           if j.slot and not j.parts[0]['ready_proc'] and not j.unsent)
            self.inflight_max = max(self.inflight_max, inflight)
            if not self.had_exit and not self.closed:
                if inflight > self.target:
                    self.viol({'C10'}, 'more_jobs_in_flight_than_slots',
                              inflight=inflight, size=self.target)
                if v != self.target - inflight and not self.grew:
                    self.viol({'C10'}, 'slot_conservation_broken',
                              value=v, size=self.target, inflight=inflight)
    grew = False

    # ------------------------------------------------------------ signals
    def check_signal(self, w, sig, via):
        """every signal the parent sends must be justified"""
        sk = self.cur_step_kind
        if sig == signal.SIGUSR1:
            cands = []
            for j in self.jobs.values():
                if j.kind != 'apply' or j.discarded:
                    continue
                p = j.parts[0]
                if p['ack_proc'] and p['ack_proc'][0] == w.pid and j.soft and \
                        self.clock.t >= j.t_acc + j.soft and sk == 'scan':
                    cands.append(j)
            fresh = [j for j in cands if not j.parts[0]['ready_proc'] and
                     j.obs is None and not j.soft_sent]
            if fresh and all(j.h.ready() for j in fresh):
                # resolved earlier in this very scan (hard limit): no soft
                # signal may be sent on its behalf any more
                self.viol({'C06'}, 'soft_signal_for_job_already_resolved',
                          job=fresh[0].jid)
                fresh[0].soft_sent += 1
            elif fresh:
                [j for j in fresh if not j.h.ready()][0].soft_sent += 1
            elif [j for j in cands if not j.parts[0]['ready_proc'] and j.obs is None]:
                j = [j for j in cands if not j.parts[0]['ready_proc'] and j.obs is None][0]
                j.soft_sent += 1
                self.viol({'C06'}, 'soft_signal_sent_twice', job=j.jid)
            elif cands:
                self.viol({'C06'}, 'soft_signal_for_job_already_processed',
                          job=cands[0].jid)
            else:
                self.viol({'C06'}, 'soft_signal_without_expired_soft_limit',
                          pid=w.pid, step_kind=sk, worker_task=w.task)
        elif sig == signal.SIGTERM:
            if via == 'os.kill' and w.death_sent:
                return            # on_death: make sure the worker is gone
            if sk == 'scan':
                def justifies(j):
                    if not (j.kind == 'apply' and j.owner == w.pid and j.t_acc is not None
                            and j.hard and self.clock.t >= j.t_acc + j.hard):
                        return False
                    if not j.parts[0]['ready_proc']:
                        return True
                    # its result was processed: only a race inside on_hard_timeout
                    # (after the scanner's own ready() test) excuses the kill
                    return j.result_phase in (('B', getattr(self, 'scan_step', None)),
                                              ('C', getattr(self, 'scan_step', None)))
                if not any(justifies(j) for j in self.jobs.values()):
                    self.viol({'C05'}, 'term_signal_without_expired_hard_limit', pid=w.pid)
                return
            if sk in ('shrink', 'terminate_job'):
                return
            self.viol({'C08', 'C05'}, 'unjustified_term_signal', pid=w.pid, via=via,
                      step_kind=sk)
        elif sig == signal.SIGKILL:
            if not (sk == 'scan' and w.termed):
                self.viol({'C05'}, 'kill_without_prior_term', pid=w.pid, via=via)
        else:
            self.viol({'C05', 'C06'}, 'unexpected_signal', pid=w.pid, sig=sig)

    # -------------------------------------------------------------- steps
    cur_step_kind = None

    def begin(self, kind):
        self.step_no += 1
        self.cur_step_kind = kind

    def read_tasks(self, expect, timeout=5.0):
        """move TASK messages from the real in-queue pipe to `pending`"""
        r = self.pool._inqueue._reader
        got = 0
        t_end = time.monotonic() + timeout
        while got < expect:
            if r.poll(0.0005):
                self.pending.append(r.recv())
                got += 1
            elif time.monotonic() > t_end:
                break
        return got

    def wait_handler_idle(self, h=None):
        """the task-handler thread reports a failed send asynchronously"""
        t_end = time.monotonic() + 2
        while time.monotonic() < t_end and self.pool._taskqueue.qsize():
            time.sleep(0.0005)
        t_end = time.monotonic() + 0.03
        while time.monotonic() < t_end and not (h is not None and h.ready()):
            time.sleep(0.001)

    def mkcb(self, j, which):
        def cb(*a, **kw):
            if which == 'timeout':
                j.cb['timeout'].append((kw.get('soft'), kw.get('timeout')))
            else:
                j.cb[which] += 1
                if which == 'ok' and j.cb_raises:
                    raise Propagated('callback of job %r' % (j.jid,))
        return cb

    def submit_apply(self, via_handler=False, unpicklable=False, limits=True):
        rng, p = self.rng, self.prof
        self.begin('submit')
        kw = {}
        if limits and p.get('job_limits') and not via_handler:
            if rng.random() < 0.5:
                kw['timeout'] = rng.choice(p['job_limits'])
            if rng.random() < 0.5:
                s = rng.choice(p['job_limits'])
                if kw.get('timeout') is None or s < kw['timeout']:
                    kw['soft_timeout'] = s
        if rng.random() < 0.5:
            kw['lost_worker_timeout'] = rng.choice([0.5, 1.0, 2.5, 3.0, 6.0])
        slot = bool(p.get('putlocks'))
        if p.get('putlocks') == 'percall':
            # a pool built without put-locks whose callers ask for a slot per call
            kw['waitforslot'] = True
            self.stat('submit_waitforslot_per_call')
        if slot:
            v, _b = self.sem_value()
            if v <= 0:
                self.stat('submit_skipped_no_slot')
                # the statement: apply_async blocks once `size` are outstanding
                if self.sem.acquire(False):
                    self.viol({'C10'}, 'slot_available_though_value_zero')
                return None
        holder = {}
        j = JobRec('apply', None, None, 1)
        if p.get('cb_raise') and not via_handler and rng.random() < p['cb_raise']:
            # its success callback raises an exception the caller asked to
            # be let through
            j.cb_raises = True
            kw['callbacks_propagate'] = (Propagated,)
        args = ((lambda: 0),) if unpicklable else ('x',)
        old_threads = self.pool.threads
        if via_handler:
            self.pool.threads = True
        try:
            h = self.pool.apply_async(
                _never_called, args, {}, callback=self.mkcb(j, 'ok'),
                error_callback=self.mkcb(j, 'err'),
                accept_callback=self.mkcb(j, 'accept'),
                timeout_callback=self.mkcb(j, 'timeout'), **kw)
        finally:
            self.pool.threads = old_threads
        if h is None:
            if not self.closed:
                self.viol({'C01'}, 'submission_refused_by_running_pool')
            return None
        j.h, j.jid = h, h._job
        j.slot = slot
        j.T = kw.get('lost_worker_timeout') or p.get('T', 3.0)
        j.hard = kw.get('timeout') or p.get('pool_hard')
        j.soft = kw.get('soft_timeout') or p.get('pool_soft')
        r = rng.random()
        j.outcomes[0] = ('ok', 'val-%d' % j.jid) if r < 0.75 else ('exc', 'task-exc-%d' % j.jid)
        self.jobs[j.jid] = j
        self.log('submit', 'apply', j.jid, kw, 'handler' if via_handler else 'direct',
                 'unpicklable' if unpicklable else '')
        if unpicklable:
            j.send_failed.add(0)
            j.unsent = True
            j.must = 'senderr'
            self.wait_handler_idle(h)
            self.stat('put_failures')
        else:
            got = self.read_tasks(1)
            if got != 1:
                self.viol({'C01'}, 'task_never_reached_queue', {'job_kind': 'apply'}, job=j.jid)
        self.stat('submit_apply')
        return j

    def submit_multi(self, kind, unpicklable_at=None, raise_at=None):
        """raise_at=k: the input iterable of an imap raises after yielding k
        items (k may be 0): whatever the pool does with the job itself, no
        other job may be touched"""
        rng, p = self.rng, self.prof
        self.begin('submit')
        n = rng.choice(p.get('map_lens', [1, 2, 3, 4, 5, 7]))
        if raise_at is not None:
            raise_at = raise_at % (n + 1)
            n = raise_at
        items = ['it-%d' % k for k in range(n)]
        send_items = list(items)
        if raise_at is not None:
            def broken(xs=list(items)):
                for x in xs:
                    yield x
                raise ValueError('broken input of job')
            send_items = broken()
        if unpicklable_at is not None:
            unpicklable_at = unpicklable_at % n
            send_items[unpicklable_at] = (lambda: 0)
        j = JobRec(kind, None, None, 0)
        if kind == 'map':
            cs = rng.choice([1, 1, 2, 3, n, n + 1])
            h = self.pool.map_async(_never_called, send_items, cs,
                                    callback=self.mkcb(j, 'ok'),
                                    error_callback=self.mkcb(j, 'err'))
            nparts = n // cs + bool(n % cs)
            j.chunk = cs
            j.T = 10.0
        else:
            T = rng.choice([None, 0.5, 2.5])
            f = self.pool.imap if kind == 'imap' else self.pool.imap_unordered
            cs = 1
            if raise_at is None and unpicklable_at is None and n >= 2 and rng.random() < 0.3:
                cs = rng.choice([2, 3])
            if cs == 1:
                h = f(_never_called, send_items, 1, lost_worker_timeout=T)
            else:
                # chunked: the caller gets a generator over the chunks of the real
                # iterator; the model watches that iterator (one item = one chunk)
                known = set(self.pool._cache)
                gen = f(_never_called, send_items, cs, lost_worker_timeout=T)
                fresh = [k for k in self.pool._cache if k not in known]
                if gen is None or len(fresh) != 1:
                    raise HarnessError('chunked imap handle not found: %r' % (fresh,))
                h = self.pool._cache[fresh[0]]
                self.keep_alive.append(gen)
                self.stat('submit_chunked_imap')
            nparts = n // cs + bool(n % cs)
            if raise_at is not None:
                j.send_failed.add(n)          # the input failed after n items
                self.stat('raising_input_iterables')
            j.chunk = cs
            # the grace period the caller asked for (not what the handle says)
            j.T = T or p.get('T', 3.0)
        if h is None:
            return None
        j.h, j.jid, j.nparts, j.items = h, h._job, nparts, items
        j.parts = {i: {'sent': True, 'taker': None, 'ack_proc': None, 'ready_proc': False,
                       'ready_sent': False, 'ack_sent': False} for i in range(nparts)}
        fail_parts = set(i for i in range(nparts) if rng.random() < p.get('p_part_exc', 0.12))
        vals = []
        for i in range(nparts):
            chunk_items = items[i * j.chunk:(i + 1) * j.chunk]
            if i in fail_parts:
                j.outcomes[i] = ('exc', 'task-exc-%d-%d' % (j.jid, i))
            elif kind == 'map':
                j.outcomes[i] = ('ok', ['r:' + x for x in chunk_items])
                vals.extend(j.outcomes[i][1])
            elif j.chunk > 1:
                j.outcomes[i] = ('ok', ['r:' + x for x in chunk_items])
            else:
                j.outcomes[i] = ('ok', 'r:' + chunk_items[0])
        j.expected_value = vals
        self.jobs[j.jid] = j
        expect = nparts
        if unpicklable_at is not None:
            bad_part = unpicklable_at // j.chunk
            j.send_failed.add(bad_part)
            j.parts[bad_part]['sent'] = False
            expect -= 1
            self.stat('put_failures')
        self.log('submit', kind, j.jid, n, j.chunk, 'T=%s' % j.T,
                 'unpicklable_at=%s' % unpicklable_at)
        got = self.read_tasks(expect)
        if got != expect:
            self.viol({'C01'}, 'task_never_reached_queue', {'job_kind': kind},
                      job=j.jid, expected=expect, got=got)
        if unpicklable_at is not None:
            self.wait_handler_idle(h if kind == 'map' else None)
        if raise_at is not None:
            self.wait_handler_idle(None)
        if kind != 'map':
            # the length announcement follows the last task
            t_end = time.monotonic() + 3
            while time.monotonic() < t_end and h._length is None:
                time.sleep(0.001)
        self.stat('submit_' + kind)
        return j

    # worker actions -------------------------------------------------------
    def w_take(self, w):
        self.begin('take')
        msg = self.pending.pop(0)
        if msg is None:
            # sentinel after close(): orderly exit
            self.log('take_sentinel', w.pid)
            self.send((4, (w.pid, 0)))
            w.death_sent = True
            self.exit(w, 0, 'sentinel')
            return
        type_, (jid, i, fun, args, kwargs) = msg
        w.task = (jid, i)
        w.state = 'has_task'
        j = self.jobs.get(jid)
        if j:
            key = 0 if i is None else i
            if j.parts[key]['taker'] is not None:
                self.viol({'C01'}, 'task_delivered_twice', job=jid, part=i)
            j.parts[key]['taker'] = w.pid
        self.log('take', w.pid, jid, i)

    def w_ack(self, w):
        self.begin('ack')
        jid, i = w.task
        self.send((0, (jid, i, self.clock.t, w.pid, None)))
        w.state = 'acked'
        w.acked_jobs.append(jid)
        self.log('ack', w.pid, jid, i)
        self.stat('acks')

    def w_ready(self, w):
        self.begin('ready')
        jid, i = w.task
        j = self.jobs[jid]
        key = 0 if i is None else i
        oc = j.outcomes[key]
        if oc[0] == 'ok':
            payload = (True, oc[1])
        else:
            from billiard.einfo import ExceptionInfo
            try:
                raise KeyError(oc[1])
            except KeyError:
                payload = (False, ExceptionInfo())
        self.ready_sender[(jid, i)] = w.pid
        self.send((1, (jid, i, payload, self.pool._inqueue._writer.fileno())))
        j.parts[key]['ready_sent'] = True
        w.executed += 1
        w.ready_sent += 1
        w.task = None
        w.state = 'idle'
        self.log('ready', w.pid, jid, i, oc[0])
        self.stat('readys')
        if w.maxtasks and w.executed >= w.maxtasks:
            w.state = 'exiting'
            w.exiting_since = self.clock.t

    def w_recycle_exit(self, w):
        """a worker that used up its quota leaves once the parent has consumed
        its results (shared counter) or the 30 s guard ran out"""
        self.begin('recycle_exit')
        ctr = self.pool._on_ready_counters.get(w.pid)
        consumed = ctr.value if ctr is not None else None
        guard = self.clock.t - w.exiting_since >= 30.0
        if consumed is not None and consumed < w.ready_sent and not guard:
            return False
        if guard and consumed is not None and consumed < w.ready_sent:
            self.stat('recycle_guard_expired')
        self.send((4, (w.pid, 155)))
        w.death_sent = True
        self.exit(w, 155, 'recycle')
        return True

    def w_die(self, w, status):
        self.begin('die')
        self.exit(w, status, 'crash')

    def w_obey_term(self, w):
        self.begin('obey_term')
        if w.lingers and self.rng.random() < 0.5:
            # ignores TERM for now
            return
        self.send((4, (w.pid, 15)))
        w.death_sent = True
        self.exit(w, 15, 'TERM')

    # parent steps ------------------------------------------------------------
    def p_result(self):
        """the parent processes exactly one message from the out-queue"""
        self.begin('result')
        pool = self.pool
        if not self.sent_fifo:
            return
        if not pool._outqueue._reader.poll(1.0):
            raise HarnessError('out-queue empty although %d messages were sent'
                               % len(self.sent_fifo))
        msg, is_dup = self.sent_fifo.pop(0)
        st, args = msg
        allowed = set()
        j = self.jobs.get(args[0]) if st in (0, 1) else None
        incache = j is not None and j.jid in pool._cache
        live_job = j is not None and incache and not j.discarded and not is_dup
        ctr_before = {pid: c.value for pid, c in pool._on_ready_counters.items()}
        key = None
        if st in (0, 1):
            key = 0 if args[1] is None else args[1]
        if st == 1 and live_job:
            allowed.add(j.jid)
        cb_accept_before = j.cb['accept'] if j else 0
        try:
            pool.handle_result_event()
        except HarnessError:
            raise
        except Propagated as exc:
            if st == 1 and live_job and j.cb_raises and j.cb['ok'] == 1:
                self.stat('propagated_callback_errors')
                # the aborted pass leaves a finished iterator behind: the
                # next event only clears it (an event loop is called again
                # while the descriptor stays readable)
                pool.handle_result_event()
            else:
                self.viol({'C01'}, 'result_handler_raised', {'dup': is_dup},
                          msg=repr(msg)[:300], exc=repr(exc))
        except Exception as exc:
            self.viol({'C01'}, 'result_handler_raised', {'dup': is_dup},
                      msg=repr(msg)[:300], exc=repr(exc),
                      tb=traceback.format_exc()[-1500:])
        self.out_proc += 1
        self.log('p_result', {0: 'ACK', 1: 'READY', 4: 'DEATH'}.get(st, st), args[0],
                 args[1] if st in (0, 1) else '', 'dup' if is_dup else '')
        if st == 0 and not is_dup and j is not None:
            self.model_R = 0      # a job was accepted: restart budget afresh
        if st == 0 and live_job:
            jid, i, t_acc, pid, _fd = args
            p = j.parts[key]
            if p['ack_proc'] is None:
                p['ack_proc'] = (pid, t_acc)
                self.stat('ack_processed')
                wk = self.by_pid.get(pid)
                if wk is not None and not wk.alive and wk.reaped:
                    # the owner was reaped before its acknowledgement was processed,
                    # whatever it died of (crash, terminate_job, ...)
                    j.ack_after_reap = True
                    self.stat('acks_processed_after_reap')
                if j.kind == 'apply':
                    j.t_acc, j.owner = t_acc, pid
                    if j.cb['accept'] != cb_accept_before + 1:
                        self.viol({'C03'}, 'accept_callback_not_fired_on_ack', job=jid)
                    if not j.h.accepted() or j.h.worker_pids() != [pid]:
                        self.viol({'C03'}, 'owner_not_recorded_on_ack', job=jid,
                                  pids=j.h.worker_pids(), want=pid)
        if st == 1 and live_job:
            p = j.parts[key]
            if not p['ready_proc']:
                p['ready_proc'] = True
                self.stat('ready_processed')
                if j.kind == 'apply' and j.cb['accept'] == 0:
                    self.viol({'C03'}, 'result_before_accept_callback', job=j.jid)
        # consumed-result counters: the READY just processed must be credited
        # to the worker that produced it (that worker's exit waits on it)
        # - whether or not the job is still known to the pool (a map that
        # failed on an earlier chunk, a job resolved by a time limit, ...)
        if st == 1 and not is_dup and j is not None:
            sender = self.ready_sender.get((args[0], args[1]))
            for pid, c in pool._on_ready_counters.items():
                d = c.value - ctr_before.get(pid, 0)
                want = 1 if pid == sender else 0
                if d != want:
                    self.stat('counter_miscredit')
                    self.viol({'C09', 'C07'}, 'consumed_counter_miscredited',
                              {'job_kind': j.kind}, job=args[0], part=args[1],
                              sender=sender, counter_of=pid, delta=d, expected=want)
                    break
            else:
                self.stat('counter_credit_checked')
        self.sample_all(allowed | getattr(self, 'nested_allowed', set()))
        self.check_sem()

    def p_supervise(self):
        from billiard.exceptions import RestartFreqExceeded
        self.begin('supervise')
        now = self.clock.t
        pool = self.pool
        allowed = set()
        # (a) jobs whose grace period is over must be reported lost now
        must_lose = []
        for j in self.jobs.values():
            if j.lost_mark and not self.loss_reported(j) and not j.discarded \
                    and j.jid in pool._cache:
                if now - j.lost_mark[0] > j.T:
                    must_lose.append(j)
                if now - j.lost_mark[0] >= j.T:
                    allowed.add(j.jid)
        # (b) exits noticed at this tick (and owners that were already reaped
        # when their ACK was processed: "all orders in which the death is
        # noticed relative to pending result messages")
        exited = [w for w in self.workers if not w.alive and not w.reaped]
        dead = {w.pid: w for w in self.workers if not w.alive}
        for j in self.jobs.values():
            if j.discarded or self.is_resolved(j) or j.jid not in pool._cache:
                continue
            gone = [dead[p] for p in j.owners_unfinished() if p in dead]
            if not gone:
                continue
            fresh_term = [w for w in gone if w.job_terminated and not w.reaped]
            others = [w for w in gone if not (w.job_terminated and not w.reaped)]
            if fresh_term:
                allowed.add(j.jid)
                if not others and j.lost_mark is None:
                    j.must = 'term'
            if others and j.lost_mark is None and j.must not in ('gaveup', 'term'):
                w = others[0]
                j.lost_mark = (now, w.popen.returncode, w.pid)
                j.loss_base = self.n_loss_items(j)
                j.loss_marks_total += 1
                j.ack_after_reap = any(x.reaped for x in others)
                if not fresh_term:
                    j.must = 'lost'
                self.stat('loss_marks')
                if j.ack_after_reap:
                    self.stat('loss_marks_ack_after_reap')
        n_abn = sum(1 for w in exited if w.popen.returncode not in (0, 155))
        n_clean = len(exited) - n_abn
        live_before = sum(1 for w in self.workers if w.alive)
        created_before = len(self.created)
        raised = False
        try:
            pool._maintain_pool()
        except RestartFreqExceeded:
            raised = True
            self.limiter_raised = True
            self.stat('limiter_raised')
        except HarnessError:
            raise
        except Exception as exc:
            self.viol({'C09', 'C01'}, 'supervision_raised', exc=repr(exc),
                      tb=traceback.format_exc()[-1500:])
        for w in exited:
            w.reaped = True
        n_created = len(self.created) - created_before
        self.log('p_supervise', 'exited=%d' % len(exited), 'created=%d' % n_created,
                 'raised' if raised else '')
        self.stat('supervise')
        if exited:
            self.stat('supervise_with_exits')
        # C11: restart budget model (statement: window opened by the first
        # abnormal restart; at most maxR admitted; next raises; fresh after
        # the window expired or a job was accepted; clean exits are free)
        maxR, W_ = self.prof.get('max_restarts'), self.prof.get('max_restart_freq', 1)
        if maxR and not self.grew_or_shrunk:
            admitted, exp_raise = 0, False
            for _ in range(n_abn):
                if self.model_T0 is not None and now - self.model_T0 >= W_:
                    self.model_T0, self.model_R = now, 0
                elif self.model_R >= maxR:
                    exp_raise = True
                    break
                if self.model_T0 is None:
                    self.model_T0 = now
                self.model_R += 1
                admitted += 1
            self.stat('restarts_admitted', admitted)
            if exp_raise != raised:
                self.viol({'C11'}, 'limiter_raise_mismatch',
                          expected_raise=exp_raise, raised=raised, abnormal=n_abn,
                          admitted_model=admitted, maxR=maxR, window=W_)
            elif not (admitted <= n_created <= admitted + n_clean):
                self.viol({'C11'}, 'replacements_differ_from_budget',
                          created=n_created, admitted_model=admitted, clean=n_clean)
            if raised:
                self.stat('limiter_raise_confirmed')
        # C09: size restored, never above, distinct indices
        if not raised and not self.closed:
            live = [w for w in self.workers if w.alive and not w.reaped]
            victims = [w for w in live if w.victim]
            nonv = len(live) - len(victims)
            if len(live) < self.target or nonv > self.target or \
                    (not victims and len(live) != self.target):
                self.viol({'C09'}, 'pool_size_not_restored', live=len(live),
                          victims=len(victims), target=self.target)
            idx = [getattr(p, 'index', None) for p in pool._pool]
            if len(set(idx)) != len(idx) or any(i is None or i < 0 for i in idx):
                self.viol({'C09'}, 'slot_index_not_distinct', indices=idx)
            self.stat('size_checks')
        self.sample_all(allowed | {j.jid for j in must_lose})
        for j in self.jobs.values():
            if j.kind in ('imap', 'imap_u'):
                j.multi_loss_ever = j.multi_loss_ever or self.multi_loss(j)
                self.attribute_losses(j)
                if j.lost_mark and self.loss_reported(j) and not j.finished:
                    j.lost_mark, j.must = None, None    # the next lost part is marked anew
        for j in must_lose:
            if j.kind in ('imap', 'imap_u') and j.lost_mark and not self.loss_reported(j) \
                    and not [i for i in self.dead_parts(j)
                             if j.parts[i]['ack_proc'][0] == j.lost_mark[2]]:
                # the result of the part was on the wire and has been processed
                # inside the grace period: nothing is lost
                j.lost_mark, j.must = None, None
                self.stat('imap_result_won_over_loss')
                continue
            if j.kind == 'imap' and j.lost_mark and not self.loss_reported(j):
                # an ordered iterator can show the failure of part k only after
                # parts 0..k-1: not observable yet, looked at again at the next pass
                dp = self.dead_parts(j)
                if dp and len(j.yielded) < dp[0]:
                    self.stat('imap_loss_waits_for_earlier_parts')
                    continue
            if not self.loss_reported(j):
                self.viol({'C04', 'C01'}, 'loss_not_reported_after_grace_period',
                          {'job_kind': j.kind, 'ack_after_reap': j.ack_after_reap,
                           'multi_loss': self.multi_loss(j) or j.multi_loss_ever},
                          job=j.jid, noticed=j.lost_mark[0],
                          now=now, T=j.T)
                j.lost_mark = None    # report once
                j.must = 'gaveup'
        for j in self.jobs.values():
            if j.must == 'term' and j.kind == 'imap' and not self.loss_reported(j):
                # ordered iterator: the failure of part k shows after parts 0..k-1;
                # a failure that never shows leaves the job unfinished (final checks)
                tp = [i for i, p in j.parts.items()
                      if p['ack_proc'] and self.by_pid[p['ack_proc'][0]].job_terminated
                      and not p['ready_proc'] and not p.get('lost_done')]
                if tp and len(j.yielded) < min(tp) + 1:
                    j.must = None
                    self.stat('imap_loss_waits_for_earlier_parts')
                    continue
            if j.must == 'term' and not self.loss_reported(j) and j.jid in allowed:
                self.viol({'C08', 'C01'}, 'terminated_job_not_resolved',
                          {'job_kind': j.kind}, job=j.jid)
                j.must = 'gaveup'
        self.check_sem()

    def n_loss_items(self, j):
        return sum(1 for y in j.yielded if y[0] in ('lost', 'term'))

    def loss_reported(self, j):
        if j.kind in ('apply', 'map'):
            return j.obs is not None
        return j.finished or self.n_loss_items(j) > j.loss_base

    def multi_loss(self, j):
        return sum(1 for p in j.parts.values()
                   if p['ack_proc'] and not p['ready_proc'] and not p.get('lost_done') and
                   not self.by_pid[p['ack_proc'][0]].alive) > 1

    def dead_parts(self, j):
        """indices of accepted, unanswered parts whose worker is dead and whose
        loss the consumer has not seen yet"""
        return sorted(i for i, p in j.parts.items()
                      if p['ack_proc'] and not p['ready_proc'] and not p.get('lost_done')
                      and not self.by_pid[p['ack_proc'][0]].alive)

    def attribute_losses(self, j):
        """imap: which parts the loss items seen by the consumer stand for.  An
        ordered iterator yields exactly one item per part, so position k is
        part k; an unordered one names only the exit status."""
        from vmon.hstatus import human_status, names_status
        if j.kind == 'imap':
            for k, y in enumerate(j.yielded):
                if y[0] in ('lost', 'term') and k in j.parts:
                    j.parts[k]['lost_done'] = True
            return
        items = [y for y in j.yielded if y[0] in ('lost', 'term')]
        done = sum(1 for p in j.parts.values() if p.get('lost_done'))
        for y in items[done:]:
            cand = self.dead_parts(j)
            if not cand:
                break
            pick = next((i for i in cand if names_status(
                y[1], self.by_pid[j.parts[i]['ack_proc'][0]].popen.returncode)), cand[0])
            j.parts[pick]['lost_done'] = True

    def is_resolved(self, j):
        if j.kind in ('apply', 'map'):
            return j.obs is not None
        # imap: resolved = the consumer saw the end (a lost part is one failing
        # item; the iterator goes on with the remaining parts)
        return j.finished

    def p_scan(self, interleave=False):
        """one pass of the time-limit scanner.  interleave=True: between the
        scanner's `job.ready()` check and its `_set` of the failure, the
        result handler processes one pending message - an interleaving two
        pool threads (threads=True) can produce; injected with a
        sys.monitoring LINE failpoint scoped to on_hard_timeout."""
        self.begin('scan')
        pool = self.pool
        th = pool._timeout_handler
        if th is None:
            return
        hook = None
        self.scan_step = self.step_no
        if interleave and self.sent_fifo:
            hook = self._install_interleave()
        now = self.clock.t
        allowed, must_tle, must_soft = set(), [], []
        for j in self.jobs.values():
            if j.kind != 'apply' or j.discarded or j.jid not in pool._cache:
                continue
            if j.t_acc is None or self.is_resolved(j):
                continue
            if j.hard and now >= j.t_acc + j.hard:
                allowed.add(j.jid)
                if now > j.t_acc + j.hard:
                    must_tle.append(j)
                j.must = 'tle'
            elif j.soft and now > j.t_acc + j.soft and not j.soft_sent:
                w = self.by_pid.get(j.owner)
                if w is not None and w.alive:
                    must_soft.append(j)
        sig_before = len(self.signals)
        cb_before = {j.jid: len(j.cb['timeout']) for j in self.jobs.values()}
        try:
            th.handle_event()
        except HarnessError:
            raise
        except Exception as exc:
            self.viol({'C05', 'C06'}, 'timeout_scan_raised', exc=repr(exc),
                      tb=traceback.format_exc()[-1500:])
        finally:
            if hook is not None:
                hook()
        if interleave:
            # a result processed inside the scan ends the soft limit's claim
            must_soft = [j for j in must_soft if not j.parts[0]['ready_proc']]
            # a result processed inside the scan may legitimately have won
            allowed |= {j.jid for j in self.jobs.values() if j.obs_step == self.step_no}
            # an ACK processed inside the scan can make a job eligible in this very pass
            allowed |= {j.jid for j in self.jobs.values()
                        if j.kind == 'apply' and j.t_acc is not None and j.hard
                        and now >= j.t_acc + j.hard}
            must_tle = [j for j in must_tle if j.obs is None or j.obs[0] == 'tle']
        for j in self.jobs.values():
            new_cbs = j.cb['timeout'][cb_before.get(j.jid, 0):]
            if any(c[0] is False for c in new_cbs) and j.kind == 'apply' and \
                    j.parts[0]['ready_proc'] and j.obs is not None and j.obs[0] != 'tle' and \
                    j.result_phase not in (('B', self.scan_step), ('C', self.scan_step)):
                self.viol({'C05'}, 'hard_timeout_handling_for_finished_job', job=j.jid,
                          callbacks=new_cbs, outcome=j.obs)
            if any(c[0] is True for c in new_cbs) and j.kind == 'apply' and j.hard and \
                    j.t_acc is not None and now >= j.t_acc + j.hard and j.h.ready():
                self.viol({'C06'}, 'soft_timeout_handling_for_job_failed_by_hard_limit',
                          job=j.jid, callbacks=new_cbs)
        self.log('p_scan', 'must_tle=%s' % [j.jid for j in must_tle],
                 'must_soft=%s' % [j.jid for j in must_soft])
        self.stat('scans')
        self.sample_all(allowed)
        for j in must_tle:
            self.stat('hard_expiries')
            if j.obs is None:
                self.viol({'C05', 'C01'}, 'hard_limit_expired_but_job_not_failed',
                          job=j.jid, hard=j.hard, t_acc=j.t_acc, now=now)
            else:
                if j.obs[0] != 'tle' and not j.parts[0]['ready_proc']:
                    self.viol({'C05'}, 'hard_limit_wrong_outcome', job=j.jid, got=j.obs)
                w = self.by_pid.get(j.owner)
                if w is not None and w.alive and not w.termed:
                    self.viol({'C05'}, 'worker_not_signalled_after_hard_limit',
                              job=j.jid, pid=w.pid)
                if w is not None and w.alive and w.termed and w.lingers:
                    self.viol({'C05'}, 'lingering_worker_not_killed', job=j.jid, pid=w.pid)
                if (False, j.hard) not in j.cb['timeout']:
                    self.viol({'C05'}, 'timeout_callback_missing_or_wrong',
                              job=j.jid, calls=j.cb['timeout'], hard=j.hard)
        for j in must_soft:
            self.stat('soft_expiries')
            if j.soft_sent != 1:
                self.viol({'C06'}, 'soft_limit_expired_but_no_signal', job=j.jid,
                          soft=j.soft, t_acc=j.t_acc, now=now)
            elif j.cb['timeout'].count((True, j.soft)) != 1:
                self.viol({'C06'}, 'soft_timeout_callback_missing_or_wrong',
                          job=j.jid, calls=j.cb['timeout'], soft=j.soft)
        self.check_sem()

    def _install_interleave(self):
        """one pending message is processed by the "result handler" in the
        middle of the scanner's pass, at one of two places: (A) between two
        jobs of the pass, i.e. after the cache was copied and before the
        scanner looks at the job's state; (B) inside on_hard_timeout after its
        `job.ready()` test.  A result processed at (A) must stop the scanner
        from treating the job as timed out; at (B) either outcome is legal."""
        import sys
        import inspect
        M = sys.monitoring
        bp = self.bp
        where = self.rng.choice(['A', 'B', 'B', 'C', 'C', 'C'])
        try:
            if where == 'A':
                fn = bp.TimeoutHandler.handle_timeouts
                needle = 'ack_time = job._time_accepted'
            elif where == 'C':
                # (C) inside ApplyResult._set, before its mutex is taken: the
                # other resolver (the job's own READY) runs _set to completion
                fn = bp.ApplyResult._set
                needle = 'with self._mutex'
            else:
                fn = bp.TimeoutHandler.on_hard_timeout
                needle = 'raise TimeLimitExceeded'
            src, first = inspect.getsourcelines(fn)
            line = next(first + i for i, ln in enumerate(src) if needle in ln)
            code = fn.__code__
        except (OSError, StopIteration, AttributeError):
            self.rec.missing('source line for the interleaving failpoint')
            return None
        TOOL = 4
        fired = [False]
        sim = self

        def on_line(c, ln):
            if ln == line and not fired[0] and sim.sent_fifo:
                if where == 'C':
                    # only when the next pending message is this job's own result
                    me = sys._getframe(1).f_locals.get('self')
                    nxt = sim.sent_fifo[0][0]
                    if not (nxt[0] == 1 and nxt[1][0] == getattr(me, '_job', None)):
                        return
                fired[0] = True
                step_kind = sim.cur_step_kind
                sim.stat('interleaved_result_inside_scan_' + where)
                before = {j.jid for j in sim.jobs.values() if j.parts.get(0, {}).get('ready_proc')}
                # what the scan itself may already have resolved in this pass
                sim.nested_allowed = {
                    j.jid for j in sim.jobs.values()
                    if j.kind == 'apply' and j.t_acc is not None and j.hard
                    and sim.clock.t >= j.t_acc + j.hard}
                try:
                    sim.p_result()
                finally:
                    sim.nested_allowed = set()
                for j in sim.jobs.values():
                    if j.kind == 'apply' and j.parts[0]['ready_proc'] and j.jid not in before:
                        j.result_phase = (where, sim.scan_step)
                sim.cur_step_kind = step_kind
        M.use_tool_id(TOOL, 'vmon-sim')
        M.register_callback(TOOL, M.events.LINE, on_line)
        M.set_local_events(TOOL, code, M.events.LINE)

        def remove():
            M.set_local_events(TOOL, code, 0)
            M.register_callback(TOOL, M.events.LINE, None)
            M.free_tool_id(TOOL)
        return remove

    def p_advance(self, dt):
        self.begin('advance')
        self.clock.t += dt
        self.log('advance', dt)

    def p_dup(self):
        """replay an earlier ACK/READY of a job that is already resolved, or
        send a message for an unknown job id"""
        self.begin('dup')
        cands = [m for m in self.sent_msgs
                 if m[1][0] in self.jobs and
                 self.jobs[m[1][0]].obs is not None]
        if cands and self.rng.random() < 0.8:
            m = self.rng.choice(cands)
            self.stat('dup_messages')
        else:
            ghost = 10**9 + self.rng.randrange(1000)
            if self.rng.random() < 0.5:
                m = (0, (ghost, None, self.clock.t, self.workers[0].pid, None))
            else:
                m = (1, (ghost, None, (True, 'ghost'), 0))
            self.stat('unknown_job_messages')
        self.send(m, dup=True)
        self.log('dup', m[0], m[1][0])

    def p_discard(self):
        self.begin('discard')
        c = [j for j in self.jobs.values() if j.kind == 'apply' and not j.discarded
             and not self.is_resolved(j)]
        if not c:
            return
        j = self.rng.choice(c)
        j.h.discard()
        j.discarded = True
        self.log('discard', j.jid)
        self.stat('discards')

    def p_terminate_job(self):
        self.begin('terminate_job')
        c = [w for w in self.workers if w.alive and not w.reaped and not w.termed
             and w.state in ('acked', 'idle')]
        if not c:
            return
        w = self.rng.choice(c)
        self.pool.terminate_job(w.pid)
        w.job_terminated = True
        self.log('terminate_job', w.pid, w.state, w.task)
        self.stat('terminate_job')

    grew_or_shrunk = False

    def p_grow(self):
        self.begin('grow')
        self.pool.grow(1)
        self.target += 1
        self.grew = self.grew_or_shrunk = True
        self.log('grow')
        self.stat('grow')
        self.check_sem()

    def p_shrink(self):
        """shrink(1).  With probability 1/2 a supervision pass is interleaved
        (sys.monitoring LINE failpoint scoped to Pool.shrink) right after the
        victim was signalled and has exited - the supervisor thread of a
        threads=True pool can run exactly there."""
        import sys
        self.begin('shrink')
        if self.target <= 1 or any(w.alive and (w.state == 'has_task' or w.victim)
                                   for w in self.workers) or \
                any(not w.alive and not w.reaped for w in self.workers):
            # (shrink picking a worker that is already going/gone decrements
            # the target without removing anyone: not generated, see DESIGN)
            return
        if self.sem_value()[0] <= 0:
            return
        before = {w.pid for w in self.workers if w.termed}
        sim = self
        interleave = self.rng.random() < 0.5
        M = sys.monitoring
        TOOL = 4
        fired = [False]
        code = self.bp.Pool.shrink.__code__

        def mark_victims():
            for w in sim.workers:
                if w.termed and w.pid not in before and not w.victim:
                    w.victim = True
                    if any(w.pid in j.owners_unfinished() for j in sim.jobs.values()
                           if j.jid in sim.pool._cache):
                        sim.viol({'C09'}, 'shrink_terminated_busy_worker', pid=w.pid)

        def on_line(c, ln):
            if fired[0]:
                return
            new = [w for w in sim.workers if w.termed and w.pid not in before and w.alive]
            if not new:
                return
            fired[0] = True
            mark_victims()
            sim.stat('supervise_interleaved_in_shrink')
            for w in new:
                w.lingers = False
                sim.w_obey_term(w)
            sim.p_supervise()
            sim.cur_step_kind = 'shrink'
        self.target -= 1          # the caller's intent; rolled back if refused
        self.grew = self.grew_or_shrunk = True
        if interleave:
            M.use_tool_id(TOOL, 'vmon-sim')
            M.register_callback(TOOL, M.events.LINE, on_line)
            M.set_local_events(TOOL, code, M.events.LINE)
        try:
            self.pool.shrink(1)
        except ValueError:
            self.target += 1
            self.log('shrink_refused')
            return
        finally:
            if interleave:
                M.set_local_events(TOOL, code, 0)
                M.register_callback(TOOL, M.events.LINE, None)
                M.free_tool_id(TOOL)
        mark_victims()
        self.log('shrink')
        self.stat('shrink')
        self.check_sem()

    # --------------------------------------------------------- scheduler
    def enabled_actions(self):
        p = self.prof
        acts = []
        wt = p['weights']
        live = [w for w in self.workers if w.alive]
        if len(self.jobs) < p['max_jobs'] and not self.closed:
            acts.append((wt.get('apply', 0), ('apply',)))
            if wt.get('apply_handler'):
                acts.append((wt['apply_handler'], ('apply_handler',)))
            if wt.get('apply_unpicklable'):
                acts.append((wt['apply_unpicklable'], ('apply_unpicklable',)))
            for k in ('map', 'imap', 'imap_u'):
                if wt.get(k):
                    acts.append((wt[k], (k,)))
            if wt.get('multi_unpicklable'):
                acts.append((wt['multi_unpicklable'], ('multi_unpicklable',)))
            if wt.get('imap_raising'):
                acts.append((wt['imap_raising'], ('imap_raising',)))
        for w in live:
            if w.termed:
                acts.append((wt.get('obey_term', 6), ('obey_term', w)))
                if not w.lingers:
                    continue
            if w.state == 'idle' and self.pending and not w.termed:
                acts.append((wt.get('take', 6), ('take', w)))
            elif w.state == 'has_task':
                acts.append((wt.get('ack', 8), ('ack', w)))
            elif w.state == 'acked':
                acts.append((wt.get('ready', 5), ('ready', w)))
            elif w.state == 'exiting':
                acts.append((wt.get('recycle_exit', 5), ('recycle_exit', w)))
            if w.state in ('idle', 'acked') and wt.get('die'):
                acts.append((wt['die'] * (3 if w.state == 'acked' else 1), ('die', w)))
        if self.sent_fifo:
            acts.append((wt.get('result', 10), ('result',)))
        acts.append((wt.get('supervise', 3), ('supervise',)))
        if self.pool._timeout_handler is not None:
            acts.append((wt.get('scan', 3), ('scan',)))
        acts.append((wt.get('advance', 3), ('advance',)))
        for k in ('dup', 'discard', 'terminate_job', 'grow', 'shrink'):
            if wt.get(k):
                acts.append((wt[k], (k,)))
        return acts

    def do(self, act):
        k = act[0]
        rng = self.rng
        if k in ('apply', 'apply_handler', 'apply_unpicklable', 'map', 'imap',
                 'imap_u', 'multi_unpicklable', 'imap_raising'):
            if k == 'apply':
                j = self.submit_apply()
            elif k == 'apply_handler':
                j = self.submit_apply(via_handler=True, limits=False)
            elif k == 'apply_unpicklable':
                j = self.submit_apply(via_handler=True, unpicklable=True, limits=False)
            elif k == 'imap_raising':
                j = self.submit_multi(rng.choice(['imap', 'imap_u']),
                                      raise_at=rng.choice([0, 0, 1, 2, 3]))
            elif k == 'multi_unpicklable':
                j = self.submit_multi(rng.choice(['map', 'imap', 'imap_u']),
                                      unpicklable_at=rng.randrange(8))
            else:
                j = self.submit_multi(k)
            self.sample_all({j.jid} if j is not None and j.send_failed else set())
            self.check_sem()
        elif k == 'take':
            self.w_take(act[1])
        elif k == 'ack':
            self.w_ack(act[1])
        elif k == 'ready':
            self.w_ready(act[1])
        elif k == 'recycle_exit':
            self.w_recycle_exit(act[1])
        elif k == 'die':
            st = rng.choice(self.prof.get('die_statuses', ABNORMAL + CLEANISH))
            self.w_die(act[1], st)
        elif k == 'obey_term':
            self.w_obey_term(act[1])
        elif k == 'result':
            self.p_result()
        elif k == 'supervise':
            self.p_supervise()
        elif k == 'scan':
            self.p_scan(interleave=self.rng.random() < self.prof.get('p_interleave', 0.3))
        elif k == 'advance':
            self.p_advance(rng.choice(self.prof.get('dts', [0.1, 0.4, 0.8, 1.0, 1.5, 3.0, 10.5])))
        elif k == 'dup':
            self.p_dup()
        elif k == 'discard':
            self.p_discard()
        elif k == 'terminate_job':
            self.p_terminate_job()
        elif k == 'grow':
            self.p_grow()
        elif k == 'shrink':
            self.p_shrink()
        else:
            raise HarnessError('unknown action %r' % (k,))

    def run(self, steps):
        rng = self.rng
        for _ in range(steps):
            if self.limiter_raised or self.n_viol > 5:
                break
            acts = self.enabled_actions()
            tot = sum(a[0] for a in acts)
            x = rng.random() * tot
            for wgt, act in acts:
                x -= wgt
                if x <= 0:
                    break
            self.do(act)
        if self.n_viol <= 5:
            self.drain()

    def drain(self):
        """faults stop; everything is delivered and processed; the clock runs
        past every pending timeout; then every job must be resolved, the cache
        empty and all slots free"""
        self.begin('drain')
        self.log('drain')
        self.drain_idx = len(self.hist) - 1
        self.draining = True
        quiet_since = self.clock.t
        for rnd in range(600):
            progress = True
            guard = 0
            active = False
            while progress and guard < 500:
                guard += 1
                progress = False
                for w in self.workers:
                    if not w.alive:
                        continue
                    if w.termed:
                        w.lingers = False
                        self.w_obey_term(w)
                        progress = True
                    elif w.state == 'idle' and self.pending:
                        self.w_take(w)
                        progress = True
                    elif w.state == 'has_task':
                        self.w_ack(w)
                        progress = True
                    elif w.state == 'acked':
                        self.w_ready(w)
                        progress = True
                    elif w.state == 'exiting':
                        if self.w_recycle_exit(w):
                            progress = True
                while self.sent_fifo and self.n_viol <= 5:
                    self.p_result()
                    progress = True
                active = active or progress
            if self.limiter_raised or self.n_viol > 5:
                break
            n_before = len(self.created)
            self.p_advance(0.8)
            self.p_supervise()
            if self.pool._timeout_handler is not None:
                self.p_scan()
            busy = active or len(self.created) != n_before or \
                any(w.alive and w.state != 'idle' for w in self.workers)
            if busy:
                quiet_since = self.clock.t
            # quiet for longer than every grace period / limit in play
            if self.clock.t - quiet_since > 13.0:
                break
        self.late_detection_round()
        self.final_checks()

    def late_detection_round(self):
        """Jobs whose owner was reaped before its ACK was processed are only
        looked at again when some other worker is reaped (known finding
        KF-ack-after-reap).  Give the pool that occasion once, so that "late
        and with the wrong status" (known) can be told from "never" (not
        known): one more worker exit, two supervision passes past every
        grace period."""
        if self.limiter_raised or self.n_viol > 5:
            return
        stuck = [j for j in self.jobs.values()
                 if j.ack_after_reap and not j.discarded and not j.excused
                 and not self.is_resolved(j)]
        if not stuck:
            return
        idle = [w for w in self.workers if w.alive and w.state == 'idle' and not w.termed]
        if not idle:
            return
        self.stat('late_detection_rounds')
        self.w_die(idle[0], -9)
        self.p_supervise()
        for j in stuck:
            j.reaped_later = True
        self.p_advance(11.0)
        self.p_supervise()
        self.p_advance(0.8)
        self.p_supervise()

    def final_checks(self):
        pool = self.pool
        self.begin('final')
        unresolved = []
        for j in self.jobs.values():
            if j.discarded or self.is_resolved(j) or j.excused:
                continue
            if self.limiter_raised:
                continue     # the pool stopped replacing workers: not "running"
            unresolved.append(j)
        for j in unresolved:
            owners_dead = any(not self.by_pid[p].alive for p in j.owners_unfinished())
            self.viol({'C01'} | ({'C04'} if owners_dead else set()),
                      'job_never_resolved',
                      {'job_kind': j.kind, 'send_failed': bool(j.send_failed),
                       'owner_died': owners_dead, 'ack_after_reap': j.ack_after_reap,
                       'reaped_later': j.reaped_later,
                       'multi_loss': self.multi_loss(j) or j.multi_loss_ever},
                      job=j.jid, parts=j.parts, yielded=j.yielded[-5:])
        # imap consumers: what was yielded must be the scripted outcomes
        for j in self.jobs.values():
            if j.kind in ('imap', 'imap_u') and not j.send_failed:
                self.check_imap(j)
        if not self.limiter_raised:
            left = [k for k in pool._cache
                    if k in self.jobs and not self.jobs[k].discarded]
            ghosts = [k for k in pool._cache if k not in self.jobs]
            left = [k for k in left if not self.jobs[k].excused]
            if (left and not unresolved) or ghosts:
                kinds = sorted({self.jobs[k].kind for k in left})
                self.viol({'C01'}, 'job_cache_not_empty_at_quiescence',
                          {'job_kinds': kinds,
                           'send_failed': any(self.jobs[k].send_failed for k in left)},
                          left=left, ghosts=ghosts)
            v, b = self.sem_value()
            if v != b and not unresolved and \
                    not any(j.excused for j in self.jobs.values()):
                self.viol({'C10'}, 'slots_not_all_free_at_quiescence',
                          {'send_failed': any(j.send_failed for j in self.jobs.values()),
                           # a result that arrived after its job had been failed by the
                           # hard limit / as lost: the slot then hangs on the worker's exit
                           'late_result_after_pool_failure': any(
                               j.obs and j.obs[0] in ('tle', 'lost', 'term') and
                               j.parts[0]['ready_sent'] for j in self.jobs.values()
                               if j.kind == 'apply')},
                          value=v, bound=b)
            self.stat('quiescence_checks')
        # consumed counters: every live worker's counter equals the number of
        # its READY messages the parent processed
        for j in self.jobs.values():
            if j.cb['ok'] + j.cb['err'] > 1:
                self.viol({'C01'}, 'callbacks_fired_more_than_once', job=j.jid)

    def check_imap(self, j):
        oks = [y for y in j.yielded if y[0] == 'ok']
        want = [('ok', repr(j.outcomes[i][1])) if j.outcomes[i][0] == 'ok'
                else ('exc', j.outcomes[i][1]) for i in range(j.nparts)]
        got = [y for y in j.yielded if y[0] in ('ok', 'exc')]
        lost = [y for y in j.yielded if y[0] in ('lost', 'term')]
        if j.kind == 'imap':
            # position k holds part k's own outcome, or the pool-made failure
            # of part k (judged below), and the iterator goes on after either
            seq = [y for y in j.yielded if y[0] in ('ok', 'exc', 'lost', 'term')]
            if any(y[0] in ('ok', 'exc') and (k >= len(want) or y != want[k])
                   for k, y in enumerate(seq)):
                self.viol({'C02', 'C01'}, 'imap_items_out_of_order_or_wrong',
                          job=j.jid, got=seq[:10], want=want[:10])
        else:
            pool_ = list(want)
            for y in got:
                if y in pool_:
                    pool_.remove(y)
                else:
                    self.viol({'C02', 'C01'}, 'imap_unordered_item_not_from_this_job',
                              job=j.jid, item=y)
                    break
        if j.kind == 'imap':
            for k, y in enumerate(j.yielded):
                pk = j.parts.get(k)
                if y[0] in ('lost', 'term') and pk is not None and not (
                        pk['ack_proc'] and not self.by_pid[pk['ack_proc'][0]].alive):
                    self.viol({'C04', 'C01'}, 'loss_reported_without_lost_owner',
                              {'job_kind': j.kind, 'owners_finished_exited': False},
                              job=j.jid, part=k, msg=y[1])
                    break
        if [y for y in lost if y[0] == 'term'] and \
                not any(self.by_pid[p].job_terminated for p in j.all_owners()):
            self.viol({'C08', 'C01'}, 'terminated_without_terminate_job',
                      {'job_kind': j.kind}, job=j.jid)
        any_dead_owner = any(
            p['ack_proc'] and not p['ready_proc'] and
            not self.by_pid[p['ack_proc'][0]].alive for p in j.parts.values())
        if [y for y in lost if y[0] == 'lost'] and j.loss_marks_total == 0 \
                and j.must != 'gaveup' and not any_dead_owner:
            self.viol({'C04', 'C01'}, 'loss_reported_without_lost_owner',
                      {'job_kind': j.kind, 'owners_finished_exited': True},
                      job=j.jid, msg=lost[0][1])
        if j.kind == 'imap_u':
            # every part yields one item: its own result or one pool-made failure;
            # a failure item must stand for a part whose worker died and whose own
            # result the consumer never got (results are unique per part)
            dead_parts = sum(1 for i, p in j.parts.items()
                             if p['ack_proc'] and not self.by_pid[p['ack_proc'][0]].alive
                             and want[i] not in got)
            if len(lost) > dead_parts:
                self.viol({'C04', 'C01'}, 'imap_loss_reported_more_than_parts_lost',
                          {'job_kind': j.kind}, job=j.jid, loss_items=len(lost),
                          parts_with_dead_owner=dead_parts)
        if j.finished and not lost and len(got) != j.nparts:
            self.viol({'C02', 'C01'}, 'imap_ended_early', {'job_kind': j.kind},
                      job=j.jid, yielded=len(got), parts=j.nparts)
        if not lost and j.lost_mark is None and not j.finished and not self.limiter_raised:
            pass   # reported by job_never_resolved


def _never_called(*a, **kw):      # the scripted workers never run task code
    raise AssertionError('SIM task executed')
