"""append-only event log shared by a scenario process and its pool workers:
one os.write of one JSON line (< 4096 bytes, atomic with O_APPEND) per event,
stamped with time.monotonic() (CLOCK_MONOTONIC is system-wide on Linux)."""
import json
import os
import time

_fd = [None, None]


def _open():
    path = os.environ.get('VERIF_EVLOG')
    if not path:
        return None
    if _fd[0] is None or _fd[1] != path:
        _fd[0] = os.open(path, os.O_WRONLY | os.O_APPEND | os.O_CREAT, 0o644)
        _fd[1] = path
    return _fd[0]


def log(kind, **f):
    fd = _open()
    if fd is None:
        return
    f['k'] = kind
    f['t'] = time.monotonic()
    f['pid'] = os.getpid()
    line = json.dumps(f, default=repr, separators=(',', ':'))
    if len(line) > 4000:
        line = json.dumps({'k': kind, 't': f['t'], 'pid': f['pid'], 'truncated': True})
    os.write(fd, (line + '\n').encode())


def read(path):
    out = []
    try:
        with open(path) as fh:
            for ln in fh:
                try:
                    out.append(json.loads(ln))
                except ValueError:
                    pass
    except OSError:
        pass
    out.sort(key=lambda e: e['t'])
    return out
