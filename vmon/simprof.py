"""SIM profiles: action weights and pool parameters per property focus"""


def profile(name, rng):
    n = rng.choice([1, 2, 2, 3, 4])
    base = dict(n=n, T=rng.choice([0.5, 1.0, 3.0]), max_jobs=rng.choice([3, 5, 8]),
                p_linger=0.3, p_part_exc=0.12,
                weights=dict(apply=4, take=6, ack=8, ready=5, result=10,
                             supervise=3, scan=3, advance=3))
    w = base['weights']
    if name == 'c01':
        base.update(maxtasks=rng.choice([None, None, 1, 2, 5]),
                    pool_hard=rng.choice([None, None, 2.0, 5.0]),
                    pool_soft=rng.choice([None, None, 1.0]),
                    job_limits=[1.0, 2.0, 4.0],
                    putlocks=rng.random() < 0.3)
        w.update(map=1.5, imap=1, imap_u=1, die=0.5, dup=1.0, discard=0.3,
                 terminate_job=0.2, apply_handler=1, apply_unpicklable=0.3,
                 multi_unpicklable=0.3, imap_raising=0.4)
        if base['pool_hard'] or base['pool_soft']:
            # handler-path applies would start the real scanner thread
            w.update(apply_handler=0, apply_unpicklable=0)
    elif name == 'c04':
        base.update(maxtasks=rng.choice([None, None, 1, 2, 3]),
                    dts=[0.1, 0.25, 0.5, 0.8, 1.0, 2.5, 3.0, 10.0])
        w.update(map=1.5, imap=1.2, imap_u=1.2, die=1.2, supervise=5, advance=5,
                 scan=0)
    elif name in ('c05', 'c06'):
        base.update(pool_hard=rng.choice([None, 2.0, 4.0]),
                    pool_soft=rng.choice([None, 1.0, 3.0]),
                    job_limits=[1.0, 2.0, 4.0, 30.0],
                    dts=[0.1, 0.3, 0.5, 0.9, 1.0, 1.1, 2.0])
        if base['pool_hard'] is None and base['pool_soft'] is None and rng.random() < 0.7:
            base['pool_hard'] = 4.0
        w.update(map=0.7, imap=0.5, imap_u=0.5, scan=6, advance=6, ready=2.5, die=0.1)
        base['p_interleave'] = 0.7
    elif name == 'c09':
        base.update(maxtasks=rng.choice([None, 1, 2, 5]), n=rng.choice([1, 2, 3, 4, 6]))
        w.update(map=1, imap=0.6, imap_u=0.6, die=1.5, supervise=5, grow=0.5, shrink=0.5)
    elif name == 'c10':
        base.update(putlocks=rng.choice([True, True, 'percall']), maxtasks=rng.choice([None, None, 2]),
                    pool_hard=rng.choice([None, None, 2.0]), job_limits=[1.0, 2.0],
                    max_jobs=rng.choice([6, 10, 16]))
        w.update(apply=8, die=0.6, grow=0.3, shrink=0.3, map=0.6, imap_u=0.4,
                 apply_handler=0 if base['pool_hard'] else 1,
                 apply_unpicklable=0 if base['pool_hard'] else 0.25)
        if rng.random() < 0.4:
            # pure slot-governed histories without exits: exact conservation
            base.update(slot_only=True, maxtasks=None, pool_hard=None, job_limits=None,
                        cb_raise=rng.choice([0, 0.3, 0.6]))
            base['weights'] = dict(apply=8, take=6, ack=8, ready=4, result=8,
                                   supervise=2, advance=1)
    elif name == 'c11':
        base.update(max_restarts=rng.choice([1, 2, 3, 5, 8]),
                    max_restart_freq=rng.choice([0.5, 1, 2, 5, 10]),
                    maxtasks=rng.choice([None, 1, 2]), max_jobs=rng.choice([4, 8, 12]),
                    n=rng.choice([1, 2, 3, 4]),
                    dts=[0.05, 0.1, 0.3, 0.5, 1.0, 2.0, 5.0, 10.0],
                    die_statuses=[-9, -11, 1, 2, 70, 255, 0, 155, 0, 155, -40])
        w.update(die=3, supervise=6, advance=4, scan=0, apply=3, discard=0.6)
    base['n'] = base.get('n', n)
    return base
