"""Schedule perturbation for the REAL lane ("chaos"): short naps at random
statement boundaries of billiard/pool.py inside the *host* process of a real
pool, so that its threads (supervisor, result handler, task feeder, time-limit
scanner, the caller's thread) meet in orders the unperturbed scheduler seldom
produces.

Placed with sys.monitoring LINE events on the code objects of billiard.pool
(no source edit; removed with the process).  A nap only sits between two
statements - a place where the operating system may deschedule a thread
anyway - so every interleaving produced is one the program can have.  Forked
workers switch the callback off before they run anything; spawn / forkserver
workers never see it.

Most naps are a bare yield or a fraction of a millisecond; a few last up to
`long_nap` seconds (the size of the windows between two pool threads that
matter: a supervision pass, a result step, a scan).  The total delay added to
one pool operation stays far below every wall-clock bound the oracles use
(those are >= several seconds)."""
import os
import random
import sys
import threading
import time
import types

TOOL = 3
stats = {'lines': 0, 'naps': 0, 'long_naps': 0, 'sites': set(), 'threads': set()}
_state = {}


def _codes_of(mod):
    seen, out = set(), []

    def walk(code):
        if id(code) in seen:
            return
        seen.add(id(code))
        out.append(code)
        for c in code.co_consts:
            if isinstance(c, types.CodeType):
                walk(c)

    fname = getattr(mod, '__file__', None)
    for obj in list(vars(mod).values()):
        if isinstance(obj, types.FunctionType) and obj.__code__.co_filename == fname:
            walk(obj.__code__)
        elif isinstance(obj, type) and getattr(obj, '__module__', None) == mod.__name__:
            for v in list(vars(obj).values()):
                f = getattr(v, '__func__', v)
                if isinstance(f, property):
                    f = f.fget
                if isinstance(f, types.FunctionType) and f.__code__.co_filename == fname:
                    walk(f.__code__)
    return out


def _thread_kind():
    n = threading.current_thread().name
    if n == 'MainThread':
        return 'main'
    return type(threading.current_thread()).__name__


def install(seed, p=0.03, nap=0.0008, long_nap=0.02, p_long=0.12):
    if not hasattr(sys, 'monitoring'):
        return False
    import billiard.pool as bp
    M = sys.monitoring
    host = os.getpid()
    rng = random.Random(seed)
    try:
        M.use_tool_id(TOOL, 'vmon-chaos')
    except ValueError:
        return False
    codes = _codes_of(bp)
    # the worker side of pool.py runs in the children only; Worker.* stays out
    worker_codes = set()
    for v in vars(bp.Worker).values():
        f = getattr(v, '__func__', v)
        if isinstance(f, types.FunctionType):
            worker_codes.add(f.__code__)

    def on_line(code, line):
        if os.getpid() != host:
            return M.DISABLE
        stats['lines'] += 1
        if rng.random() >= p:
            return None
        stats['naps'] += 1
        stats['sites'].add((code.co_name, line))
        stats['threads'].add(_thread_kind() + ':' + code.co_name)
        if rng.random() < p_long:
            stats['long_naps'] += 1
            time.sleep(rng.random() * long_nap)
        else:
            time.sleep(rng.random() * nap)
        return None

    M.register_callback(TOOL, M.events.LINE, on_line)
    n = 0
    for c in codes:
        if c in worker_codes:
            continue
        try:
            M.set_local_events(TOOL, c, M.events.LINE)
            n += 1
        except Exception:
            pass
    _state['codes'] = n

    def in_child():
        try:
            M.register_callback(TOOL, M.events.LINE, None)
        except Exception:
            pass
    os.register_at_fork(after_in_child=in_child)
    return True


def summary():
    return {'code_objects': _state.get('codes', 0), 'lines': stats['lines'], 'naps': stats['naps'],
            'long_naps': stats['long_naps'], 'sites': len(stats['sites']),
            'thread_function_pairs': len(stats['threads'])}
