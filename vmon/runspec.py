import sys
from vmon.core import spec_main

if __name__ == '__main__':
    spec_main(sys.argv[1], sys.argv[2], sys.argv[3])
