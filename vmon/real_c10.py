"""REAL lane of C10 (slot semaphore) - a blocked submitter on a real pool"""
from vmon import real


def plan(tier, seed):
    sizes = (1, 3) if tier == 'quick' else (1, 2, 3, 4)
    specs = [{'lane': 'real', 'timeout': 120, 'params': {'nproc': n, 'hold': 1.0, 'T': 2.0}}
             for n in sizes]
    # close() with more blocked producers than slots
    specs += [{'lane': 'real', 'sc': 'close', 'timeout': 120,
               'params': {'nproc': n, 'producers': k, 'hold': 1.0, 'T': 2.0}}
              for (n, k) in (((2, 5),) if tier == 'quick' else ((1, 3), (2, 5), (3, 7), (2, 2)))]
    return specs


def run_close(spec, rec):
    p = spec['params']
    r = real.run_scenario('vmon.real_pool', 'sc_putlocks_close', p, timeout=spec['timeout'] - 25)
    obs = r['obs']
    if r['status'] == 'scenario_error':
        raise RuntimeError('scenario error: ' + obs.get('scenario_exception', r['stderr'][-2000:]))
    rec.case()
    rec.count('real:putlock_close_scenarios')
    attrs = {'lane': 'real', 'nproc': p['nproc'], 'scenario': 'close_with_blocked_producers'}
    if r['status'] != 'ok':
        rec.violation('host_process_died' if r['status'] == 'died' else 'putlock_pool_hung', attrs,
                      rc=r['rc'], obs=obs, stderr=r['stderr'][-4000:])
        return
    if obs['returned_while_full']:
        rec.violation('apply_async_did_not_block_with_all_slots_taken', attrs, obs=obs)
    else:
        rec.count('real:blocked_submitters', p['producers'])
    if obs['handles_after_close']:
        rec.violation('job_accepted_after_close', attrs, obs=obs)
    if obs['returned_at_quiescence'] != p['producers']:
        # (whether they come back at close() or only when slots come back is not
        # C10's business; that they hold no slot at the end is)
        rec.violation('producer_blocked_for_ever_after_close', attrs, obs=obs)
    if any(o[0] != 'ok' for o in obs['first']):
        rec.violation('putlock_job_failed', attrs, obs=obs)
    if obs['value_at_quiescence'] != obs['bound'] or obs['bound'] != p['nproc']:
        rec.violation('slots_not_all_free_at_quiescence', attrs, value=obs['value_at_quiescence'],
                      bound=obs['bound'], obs=obs)
    rec.sig(['putlocks_close', p['nproc'], p['producers']])


def run_spec(spec, rec):
    if spec.get('sc') == 'close':
        return run_close(spec, rec)
    p = spec['params']
    r = real.run_scenario('vmon.real_pool', 'sc_putlocks', p, timeout=spec['timeout'] - 25)
    obs, ev = r['obs'], r['events']
    if r['status'] == 'scenario_error':
        raise RuntimeError('scenario error: ' + obs.get('scenario_exception', r['stderr'][-2000:]))
    rec.case()
    rec.count('real:putlock_scenarios')
    attrs = {'lane': 'real', 'nproc': p['nproc']}
    if r['status'] != 'ok':
        rec.violation('host_process_died' if r['status'] == 'died' else 'putlock_pool_hung', attrs,
                      rc=r['rc'], obs=obs, stderr=r['stderr'][-4000:])
        return
    if obs['submitter_returned_while_full']:
        rec.violation('apply_async_did_not_block_with_all_slots_taken', attrs, obs=obs)
    else:
        rec.count('real:blocked_submitters')
    if obs['value_while_full'] != 0:
        rec.violation('slot_conservation_broken', attrs, value=obs['value_while_full'])
    if not obs['submitter_returned_after_open']:
        rec.violation('blocked_submitter_never_released', attrs, obs=obs)
    elif obs['return_minus_open'] < -0.001:
        rec.violation('apply_async_did_not_block_with_all_slots_taken', attrs, obs=obs)
    # in-flight never above size: running intervals from the worker-side log
    evs = sorted([(e['t'], 1) for e in ev if e['k'] == 'task_start'] +
                 [(e['t'], -1) for e in ev if e['k'] == 'task_end'])
    cur = mx = 0
    for _t, d in evs:
        cur += d
        mx = max(mx, cur)
    rec.maxi('max:tasks_running_at_once', mx)
    if mx > p['nproc']:
        rec.violation('more_jobs_in_flight_than_slots', attrs, running=mx, size=p['nproc'])
    if any(o != 'ok' for o in obs['burst']) or any(o[0] != 'ok' for o in obs['first']):
        rec.violation('putlock_job_failed', attrs, obs=obs)
    if obs['value_at_quiescence'] != obs['bound'] or obs['bound'] != p['nproc']:
        rec.violation('slots_not_all_free_at_quiescence', attrs, value=obs['value_at_quiescence'],
                      bound=obs['bound'])
    rec.sig(['putlocks', p['nproc'], mx])
    rec.sample({'params': p, 'obs': {k: v for k, v in obs.items() if k not in ('first', 'burst')}})
