"""REAL lane of C09 (pool size, recycling) - monitor side"""
from vmon.core import rng_for
from vmon import real


def plan(tier, seed):
    rng = rng_for(seed, 'c09real')
    specs = []
    combos = [(mt, n) for mt in (1, 2, 5) for n in (1, 2, 4)]
    rng.shuffle(combos)
    for (mt, nproc) in combos[:(5 if tier == 'quick' else 9)]:
        jobs = []
        for j in range(rng.choice([6, 12, 20]) if tier == 'quick' else rng.choice([20, 60, 120])):
            jobs.append({'kind': 'apply', 'tag': 'a%d' % j, 'dur': rng.choice([0.01, 0.05])})
        jobs.append({'kind': 'map', 'tag': 'm', 'n': rng.choice([5, 9]), 'dur': 0.03, 'chunk': 1})
        jobs.append({'kind': 'imap', 'tag': 'i', 'n': rng.choice([4, 7]), 'dur': 0.03, 'chunk': 1})
        jobs.append({'kind': 'imap_u', 'tag': 'u', 'n': rng.choice([4, 7]), 'dur': 0.03, 'chunk': 1})
        rng.shuffle(jobs)
        specs.append({'lane': 'real', 'sc': 'recycle', 'timeout': 240, 'params': {
            'nproc': nproc, 'maxtasks': mt, 'T': 1.0, 'jobs': jobs, 'wait': 150}})
    specs.append({'lane': 'real', 'sc': 'recycle', 'timeout': 150, 'params': {
        'nproc': 2, 'maxtasks': None, 'max_mem': 1, 'T': 1.0, 'wait': 100, 'memlimit': True,
        'jobs': [{'kind': 'apply', 'tag': 'mem%d' % j, 'dur': 0.02} for j in range(6)]}})
    # long chunked jobs on a recycling pool: still running long after (more than
    # the 10 s loss timeout of a map) the workers that answered their first
    # chunks have left on schedule
    for (kind, mt) in ((('map', 1),) if tier == 'quick' else
                       (('map', 1), ('imap_u', 1), ('imap', 2), ('map', 2))):
        specs.append({'lane': 'real', 'sc': 'recycle', 'timeout': 200, 'params': {
            'nproc': 2, 'maxtasks': mt, 'T': 1.0, 'wait': 120, 'long_chunked': True,
            'jobs': [{'kind': kind, 'tag': 'lc', 'n': 32, 'dur': 0.9, 'chunk': 2}]}})
    for nproc, kill in ((2, 1), (4, 2)) if tier == 'quick' else ((2, 1), (3, 2), (4, 3)):
        specs.append({'lane': 'real', 'sc': 'kill_idle', 'timeout': 100,
                      'params': {'nproc': nproc, 'kill': kill, 'victim_kind': 'waiter',
                                 'sig': rng.choice([9, 11, 15]), 'T': 1.0}})
    for (nproc, g, sh) in ((2, 2, 1), (1, 1, 1)) if tier == 'quick' else \
            ((2, 2, 1), (1, 1, 1), (3, 1, 3), (2, 3, 2)):
        specs.append({'lane': 'real', 'sc': 'grow_shrink', 'timeout': 100,
                      'params': {'nproc': nproc, 'grow': g, 'shrink': sh, 'T': 1.0}})
    # the idle worker that holds the queue's read lock: TERM is handled in
    # Python (lock released); a hard kill leaves the lock taken (known finding)
    specs.append({'lane': 'real', 'sc': 'kill_idle', 'timeout': 100,
                  'params': {'nproc': 2, 'kill': 1, 'victim_kind': 'holder', 'sig': 15, 'T': 1.0}})
    specs.append({'lane': 'real', 'sc': 'kill_idle', 'timeout': 80,
                  'params': {'nproc': 2, 'kill': 1, 'victim_kind': 'holder', 'sig': 9, 'T': 1.0}})
    return specs


def want(job):
    tag = job['tag']
    if job['kind'] == 'apply':
        return ['ok', ['v', tag]]
    vals = [['v', '%s.%d' % (tag, i)] for i in range(job['n'])]
    return ['ok', vals] if job['kind'] == 'map' else ['items', [['ok', v] for v in vals]]


def run_spec(spec, rec):
    p = spec['params']
    fn = {'recycle': 'sc_recycle', 'kill_idle': 'sc_kill_idle',
          'grow_shrink': 'sc_grow_shrink'}[spec['sc']]
    r = real.run_scenario('vmon.real_pool', fn, p, timeout=spec['timeout'] - 25)
    obs, ev = r['obs'], r['events']
    if r['status'] == 'scenario_error':
        raise RuntimeError('scenario error: ' + obs.get('scenario_exception', r['stderr'][-2000:]))
    rec.case()
    attrs = {'lane': 'real', 'scenario': spec['sc'], 'maxtasks': p.get('maxtasks'),
             'memlimit': bool(p.get('memlimit'))}
    if spec['sc'] == 'kill_idle':
        attrs['hard_kill_of_lock_holder'] = bool(
            obs.get('victim_held_queue_lock') and p.get('sig') != 15)
    if r['status'] != 'ok':
        rec.violation('host_process_died' if r['status'] == 'died' else 'pool_hung_while_recycling',
                      attrs, rc=r['rc'], obs=obs, stderr=r['stderr'][-4000:], params=p)
        return
    if spec['sc'] == 'grow_shrink':
        rec.count('real:grow_shrink_scenarios')
        n, g = p['nproc'], p['grow']
        if obs['live_after_grow'] != n + g:
            rec.violation('pool_size_not_restored', dict(attrs, after='grow'),
                          live=obs['live_after_grow'], target=n + g)
        if len(obs['pids_after_grow']) < min(n + g, 2):
            rec.violation('grown_workers_not_serving', attrs, pids=obs['pids_after_grow'])
        for key in ('indices_after_grow', 'indices_after_shrink'):
            if len(set(obs[key])) != len(obs[key]):
                rec.violation('slot_index_not_distinct', attrs, indices=obs[key], when=key)
        if obs['shrink'] == 'ok' and (obs['live_after_shrink'] != obs['target_after_shrink'] or
                                      obs['pool_len_after_shrink'] != obs['target_after_shrink']):
            rec.violation('pool_size_not_restored', dict(attrs, after='shrink'),
                          live=obs['live_after_shrink'], pool_len=obs['pool_len_after_shrink'],
                          target=obs['target_after_shrink'])
        if any(o[0] != 'ok' for o in obs['after']):
            rec.violation('job_failed_after_shrink', attrs, after=obs['after'])
        rec.sig(['grow_shrink', n, g, p['shrink'], obs['shrink'] == 'ok'])
        return
    if spec['sc'] == 'kill_idle':
        rec.count('real:kill_idle_scenarios')
        if obs.get('victim_held_queue_lock'):
            rec.count('real:kill_idle_lock_holder')
        if not obs.get('victims'):
            rec.anomaly('no_idle_victim_of_requested_kind', obs=obs)
            return
        if any(o[0] != 'ok' for o in obs['after']):
            rec.violation('job_failed_after_idle_worker_died', attrs, after=obs['after'], params=p)
        if obs['live_workers'] != p['nproc'] or obs['victims_still_in_pool']:
            rec.violation('pool_size_not_restored', attrs, live=obs['live_workers'],
                          nproc=p['nproc'], victims=obs['victims_still_in_pool'])
        if len(set(obs['indices'])) != len(obs['indices']) or \
                sorted(obs['indices']) != list(range(p['nproc'])):
            rec.violation('slot_index_not_distinct', attrs, indices=obs['indices'])
        rec.sig(['kill_idle', p['nproc'], p['kill'], p['sig']])
        return
    rec.count('real:recycle_scenarios')
    # per-pid execution counts and exit statuses
    per = {}
    for e in ev:
        if e['k'] == 'task_start':
            per[e['pid']] = per.get(e['pid'], 0) + 1
    quota = p.get('maxtasks')
    ntasks = sum(j.get('n', 1) for j in p['jobs'])
    if sum(per.values()) != ntasks:
        rec.violation('task_executed_wrong_number_of_times', attrs, executed=sum(per.values()),
                      tasks=ntasks)
    rec.count('real:tasks_executed', sum(per.values()))
    rec.count('real:worker_processes_used', len(per))
    if p.get('long_chunked'):
        # the quota counts jobs: one chunk of two items is one job
        rec.count('real:long_chunked_recycling_scenarios')
        per = {pid: (n + 1) // 2 for pid, n in per.items()}
    downs = {e['wpid']: e.get('exitcode') for e in ev if e['k'] == 'process_down'}
    if quota:
        over = {pid: n for pid, n in per.items() if n > quota}
        if over:
            rec.violation('worker_exceeded_task_quota', attrs, over=over, quota=quota)
        for pid, n in per.items():
            if n == quota and pid in downs:
                rec.count('real:recycle_exits_seen')
                if downs[pid] != 155:
                    rec.violation('recycled_worker_wrong_exit_status', attrs, pid=pid,
                                  status=downs[pid])
    if p.get('memlimit'):
        if len(per) < 3:
            rec.violation('memory_limit_did_not_recycle', attrs, per=per)
        for pid, st in downs.items():
            if st not in (155, 0, None) and pid in per:
                rec.violation('recycled_worker_wrong_exit_status', attrs, pid=pid, status=st)
    for job, got in obs['results']:
        w = want(job)
        same = sorted(map(repr, got[1])) == sorted(map(repr, w[1])) \
            if (job['kind'] == 'imap_u' and got[0] == 'items') else got == w
        if not same:
            rec.violation('job_lost_duplicated_or_failed_because_of_recycling',
                          dict(attrs, job_kind=job['kind']), job=job, got=got)
    # held up: every worker exit costs ~1-2 s (exit sleep + supervision period)
    n_exits = (ntasks / float(quota)) if quota else (ntasks if p.get('memlimit') else 0)
    budget = 10.0 + 2.5 * n_exits / p['nproc'] + 2.5 * n_exits * (1 if p['nproc'] == 1 else 0.3)
    if obs['wall'] > budget:
        rec.violation('jobs_held_up_by_recycling', attrs, wall=obs['wall'], budget=budget,
                      exits=n_exits, worst_stall=obs.get('worst_stall'), params=p)
    rec.maxi('max:recycle_wall_ms', int(obs['wall'] * 1000))
    if obs['live_workers'] != p['nproc']:
        rec.violation('pool_size_not_restored', attrs, live=obs['live_workers'], nproc=p['nproc'])
    if len(set(obs['indices'])) != len(obs['indices']):
        rec.violation('slot_index_not_distinct', attrs, indices=obs['indices'])
    rec.sig(['recycle', p['nproc'], quota, bool(p.get('memlimit')), min(ntasks // 10, 9)])
    rec.sample({'params': {k: v for k, v in p.items() if k != 'jobs'}, 'tasks': ntasks,
                'per_pid': per, 'wall': round(obs['wall'], 2)})
