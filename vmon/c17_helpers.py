"""C17 helpers that must be importable by spawn children: the objects reach
the child by pickling (SemLock / Condition / Event __getstate__/__setstate__).
A file-backed mmap in VERIF_WORKDIR carries the witnesses."""
import mmap
import os
import time
import traceback

BOUND = 60.0


def _map(path):
    fd = os.open(path, os.O_RDWR)
    mm = mmap.mmap(fd, 4096)
    os.close(fd)
    return mm, memoryview(mm).cast('q')


# cell layout: 0 lock counter, 8+i semaphore slots, 16+i cond phase, 24+i event phase

def spawn_child(i, path, lock, rlock, bsem, cond, ev, conn):
    mm, a = _map(path)
    try:
        while True:
            if not conn.poll(60):
                break
            cmd = conn.recv()
            op = cmd[0]
            if op == 'quit':
                break
            try:
                if op == 'mutex':
                    n, over, maxocc = cmd[1], 0, 0
                    for _ in range(n):
                        if not lock.acquire(True, BOUND):
                            conn.send(('stuck', 'lock'))
                            return
                        v = a[0]
                        if _ % 3 == 0:
                            time.sleep(0)
                        a[0] = v + 1
                        lock.release()
                        with rlock:
                            with rlock:
                                v = a[1]
                                a[1] = v + 1
                        if not bsem.acquire(True, BOUND):
                            conn.send(('stuck', 'bsem'))
                            return
                        a[8 + i] += 1            # odd: inside
                        occ = 0
                        for _try in range(4):    # double collect = atomic snapshot
                            s1 = [a[8 + j] for j in range(8)]
                            s2 = [a[8 + j] for j in range(8)]
                            if s1 == s2:
                                occ = sum(v & 1 for v in s1)
                                break
                        maxocc = max(maxocc, occ)
                        if occ > 2:
                            over += 1
                        time.sleep(0)
                        a[8 + i] += 1            # even: outside
                        bsem.release()
                    conn.send(('mutex', n, over, maxocc))
                elif op == 'cwait':
                    to = cmd[1]
                    if not cond.acquire(True, BOUND):
                        conn.send(('stuck', 'cond'))
                        return
                    a[16 + i] = 1
                    t0, t0r = time.monotonic(), time.time()
                    r = cond.wait(to)
                    el = max(time.monotonic() - t0, time.time() - t0r)
                    a[16 + i] = 2
                    cond.release()
                    conn.send(('cwait', r, el))
                elif op == 'ewait':
                    a[24 + i] = 1
                    t0 = time.monotonic()
                    r = ev.wait(cmd[1])
                    a[24 + i] = 2
                    conn.send(('ewait', r, time.monotonic() - t0))
                elif op == 'eis':
                    conn.send(('eis', ev.is_set()))
                elif op == 'eclear':
                    ev.clear()
                    conn.send(('eclear', None))
                elif op == 'eset':
                    ev.set()
                    conn.send(('eset', None))
            except Exception as exc:
                conn.send(('exc', op, repr(exc), traceback.format_exc()[-1200:]))
    finally:
        os._exit(0)


class _Abort(Exception):
    pass


def spawn_scenario(rec, ctx, attrs, nchildren, seed, workdir):
    path = os.path.join(workdir, 'c17-spawn-%d.bin' % seed)
    with open(path, 'wb') as f:
        f.write(b'\0' * 4096)
    mm, a = _map(path)
    lock, rlock, bsem = ctx.Lock(), ctx.RLock(), ctx.BoundedSemaphore(2)
    cond, ev = ctx.Condition(), ctx.Event()
    kids = []

    def V(kind, **d):
        rec.violation(kind, attrs, **d)

    def get(k, what, bound=BOUND):
        p, c = kids[k]
        if not c.poll(bound):
            V('spawn_child_stuck', phase=what, child=k)
            raise _Abort()
        m = c.recv()
        if m[0] == 'exc':
            V('operation_raised_in_spawn_child', op=m[1], exc=m[2], tb=m[3])
            raise _Abort()
        if m[0] == 'stuck':
            V('lock_unavailable', what=m[1], child=k)
            raise _Abort()
        return m

    def notify(all_=False):
        try:
            with cond:
                if all_:
                    cond.notify_all()
                else:
                    cond.notify()
        except Exception as exc:
            V('notify_raised', op='notify_all' if all_ else 'notify', exc=repr(exc),
              tb=traceback.format_exc()[-1200:])
            raise _Abort()
        rec.count('notify_all' if all_ else 'notify')

    def wait_cells(basecell, val, what):
        end = time.monotonic() + BOUND
        while time.monotonic() < end:
            if not cond.acquire(True, BOUND):
                V('lock_unavailable', what='cond (parent)')
                raise _Abort()
            ok = all(a[basecell + k] == val for k in what)
            cond.release()
            if ok:
                return
            time.sleep(0.002)
        raise RuntimeError('spawn children never reached phase')

    try:
        for i in range(nchildren):
            pc, cc = ctx.Pipe()
            p = ctx.Process(target=spawn_child,
                            args=(i, path, lock, rlock, bsem, cond, ev, cc))
            p.daemon = True
            p.start()
            cc.close()
            kids.append((p, pc))
            rec.count('spawn_children')
        K = range(nchildren)
        # 1. mutual exclusion through pickled Lock / RLock / BoundedSemaphore
        n = 150
        for k in K:
            kids[k][1].send(('mutex', n))
        mine = 0
        for _ in range(n):
            if not lock.acquire(True, BOUND):
                V('lock_unavailable', what='lock (parent)')
                raise _Abort()
            v = a[0]
            time.sleep(0)
            a[0] = v + 1
            mine += 1
            lock.release()
        tot = mine
        for k in K:
            m = get(k, 'mutex', 60)
            tot += m[1]
            rec.count('mutex_sections', 2 * m[1])
            if m[2]:
                V('admitted_more_holders_than_count', n=2, times=m[2], max_inside=m[3])
        if a[0] != tot:
            V('lost_update_under_lock', counter=a[0], sections=tot, kind='Lock')
        if a[1] != n * nchildren:
            V('lost_update_under_lock', counter=a[1], sections=n * nchildren, kind='RLock')
        try:
            bsem.release()
            V('bounded_semaphore_over_release_accepted', when='after spawn use')
        except ValueError:
            rec.count('over_release_refused')
        # 2. notify wakes exactly one of the sleepers, notify_all the rest
        for k in K:
            kids[k][1].send(('cwait', None))
        wait_cells(16, 1, K)
        notify()
        end = time.monotonic() + BOUND
        woken = []
        while time.monotonic() < end and not woken:
            for k in K:
                if kids[k][1].poll(0.005):
                    woken.append((k, get(k, 'cwait')))
        if not woken:
            V('lost_wakeup', op='notify', sleepers=nchildren)
            raise _Abort()
        time.sleep(0.05)
        for k in K:
            if k not in [w[0] for w in woken] and kids[k][1].poll(0):
                woken.append((k, get(k, 'cwait')))
        if len(woken) > 1:
            V('notify_woke_more_than_one', woken=len(woken))
        notify(True)
        for k in K:
            if k not in [w[0] for w in woken]:
                if not kids[k][1].poll(LATE):
                    V('lost_wakeup', op='notify_all', child=k)
                    raise _Abort()
                woken.append((k, get(k, 'cwait')))
        for k, m in woken:
            rec.count('wait_true')
            if m[1] is not True:
                V('untimed_wait_returned_false', value=m[1])
        # 3. a timed-out wait leaves the condition consistent
        kids[0][1].send(('cwait', 0.005))
        m = get(0, 'cwait-timeout')
        rec.count('wait_timeout')
        if m[1] is not False:
            V('wait_true_without_notification', timeout=0.005, elapsed=m[2])
        elif m[2] < 0.005 - 0.0005:
            V('wait_returned_false_before_timeout', timeout=0.005, elapsed=m[2])
        notify()                    # nobody asleep: must not leave a token
        last = nchildren - 1
        kids[last][1].send(('cwait', 0.05))
        m = get(last, 'cwait-stray')
        if m[1] is not False:
            V('wait_true_without_notification', timeout=0.05, elapsed=m[2],
              note='stray token after a timed-out waiter + empty notify')
        kids[0][1].send(('cwait', None))
        wait_cells(16, 1, [0])
        notify()
        if not kids[0][1].poll(LATE):
            V('lost_wakeup', op='notify', after='timeout of another waiter')
            raise _Abort()
        m = get(0, 'cwait-after')
        if m[1] is not True:
            V('untimed_wait_returned_false', value=m[1])
        # 4. event through pickling
        for k in K:
            kids[k][1].send(('ewait', 10))
        end = time.monotonic() + BOUND
        while time.monotonic() < end and not all(a[24 + k] == 1 for k in K):
            time.sleep(0.002)
        time.sleep(0.02)
        ev.set()
        for k in K:
            m = get(k, 'ewait')
            rec.count('event_wait_true')
            if m[1] is not True:
                V('event_wait_missed_set', timeout=10, elapsed=m[2])
        ev.clear()
        for k in K:
            kids[k][1].send(('eis',))
            if get(k, 'eis')[1] is not False:
                V('event_differs_from_register', op='is_set', want=False)
        kids[0][1].send(('eset',))
        get(0, 'eset')
        if ev.is_set() is not True:
            V('event_differs_from_register', op='is_set', want=True)
        kids[last][1].send(('eclear',))
        get(last, 'eclear')
        if ev.wait(0.002) is not False:
            V('event_differs_from_register', op='wait', want=False)
        rec.count('event_ops', 4 * nchildren + 4)
        rec.sig(['spawn', nchildren])
    except _Abort:
        pass
    finally:
        for p, c in kids:
            try:
                c.send(('quit',))
            except Exception:
                pass
        end = time.monotonic() + 3
        for p, c in kids:
            while p.is_alive() and time.monotonic() < end:
                time.sleep(0.01)
            if p.is_alive():
                try:
                    os.kill(p.pid, 9)
                except OSError:
                    pass
            try:
                p.join(5)
            except Exception:
                pass
        try:
            os.unlink(path)
        except OSError:
            pass


LATE = 20.0


# -- fork while the object is held by the parent --------------------------------

def held_child(obj, conn):
    """forked while the parent holds `obj`: this process does not hold it"""
    try:
        got = obj.acquire(False)
        conn.send(('try', got))
        if got:
            obj.release()
        # the parent lets go after reading the answer
        got = obj.acquire(True, 30)
        conn.send(('blocking', got))
        if got:
            obj.release()
    except BaseException:
        try:
            conn.send(('raised', traceback.format_exc()[-1500:]))
        except Exception:
            pass


def notify_child(cond, conn):
    """forked inside the parent's `with cond:` block: can only get in once the
    parent waits, and its notify must wake the parent"""
    try:
        t0 = time.monotonic()
        with cond:
            conn.send(('inside', time.monotonic() - t0))
            cond.notify()
        conn.send(('left', None))
    except BaseException:
        try:
            conn.send(('raised', traceback.format_exc()[-1500:]))
        except Exception:
            pass
