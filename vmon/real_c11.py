"""REAL lane of C11: start-up burst limit (workers exiting in their initializer)"""
from vmon import real


def plan(tier, seed):
    sizes = (1, 2) if tier == 'quick' else (1, 2, 4)
    specs = [{'lane': 'real', 'timeout': 100,
              'params': {'nproc': n, 'T': 1.0, 'wait': 30, 'max_restarts': n,
                         'max_restart_freq': 20}} for n in sizes]
    # default budget (limiter effectively off after start-up): only the burst bound applies
    specs.append({'lane': 'real', 'timeout': 60,
                  'params': {'nproc': 2, 'T': 1.0, 'wait': 6, 'max_restarts': None}})
    return specs


def run_spec(spec, rec):
    p = spec['params']
    r = real.run_scenario('vmon.real_pool', 'sc_startup_burst', p, timeout=spec['timeout'] - 25)
    obs, ev = r['obs'], r['events']
    if r['status'] == 'scenario_error':
        raise RuntimeError('scenario error: ' + obs.get('scenario_exception', r['stderr'][-2000:]))
    rec.case()
    rec.count('real:burst_scenarios')
    attrs = {'lane': 'real', 'nproc': p['nproc'], 'scenario': 'startup_burst'}
    if r['status'] == 'hang':
        rec.violation('pool_hung_at_startup_burst', attrs, obs=obs, stderr=r['stderr'][-4000:])
        return
    n = p['nproc']
    ups = [e['t'] for e in ev if e['k'] == 'process_up']
    deaths = [e for e in ev if e['k'] == 'initializer_exit']
    rec.count('real:initializer_exits', len(deaths))
    # burst budget: 10 restarts per worker slot per second (+ the n initial workers)
    if ups:
        t0 = ups[0]
        worst = 0
        for i, t in enumerate(ups):
            inwin = sum(1 for u in ups if t <= u < t + 1.0)
            worst = max(worst, inwin)
        rec.maxi('max:process_ups_in_one_second', worst)
        if worst > 10 * n + n:
            rec.violation('startup_burst_limit_exceeded', attrs, ups_in_one_second=worst,
                          budget=10 * n, nproc=n)
    total = max(obs.get('ups', 0), obs.get('ups_late', 0))
    attrs['explicit_budget'] = p.get('max_restarts') is not None
    if p.get('max_restarts') is None:
        rec.sig(['burst-default', n, min(total // 5, 9)])
        return
    if r['status'] == 'ok' and obs.get('host_termed_after') is None:
        rec.violation('restart_limiter_never_reacted', attrs, obs=obs, ups=total)
    else:
        rec.count('real:limiter_reactions')
    if obs.get('host_termed_after') is not None and obs.get('ups_late', 0) > obs.get('ups', 0):
        rec.violation('worker_forked_after_limiter_raised', attrs, ups=obs.get('ups'),
                      later=obs.get('ups_late'))
    rec.sig(['burst', n, min(total // 5, 9)])
    rec.sample({'params': p, 'obs': obs, 'process_ups': len(ups)})
