"""REAL-lane scenario functions (run inside vmon.realchild, i.e. in a host
process of their own with a real billiard Pool) shared by several checks.
They only *observe and record*; the oracles run in the monitor process."""
import gc
import os
import signal
import threading
import time

from vmon import tasks
from vmon.evlog import log
from vmon.real import pid_exists, children_of, exc_name, Heartbeat


def _mkpool(params, up, extra=None):
    from billiard.pool import Pool
    import billiard
    kw = dict(processes=params.get('nproc', 2),
              maxtasksperchild=params.get('maxtasks'),
              timeout=params.get('pool_hard'), soft_timeout=params.get('pool_soft'),
              lost_worker_timeout=params.get('T'),
              threads=params.get('threads', True),
              putlocks=params.get('putlocks', False),
              on_process_up=lambda w: (up.append(w.pid), log('process_up', wpid=w.pid)),
              on_process_down=lambda w: log('process_down', wpid=w.pid, exitcode=w.exitcode),
              on_process_exit=tasks.on_exit_cb,
              max_memory_per_child=params.get('max_mem'),
              enable_timeouts=bool(params.get('enable_timeouts')))
    if params.get('ctx'):
        kw['context'] = billiard.get_context(params['ctx'])
    if extra:
        kw.update(extra)
    if params.get('slow_send'):
        # widen a window the OS can always produce: a worker is descheduled
        # right after write() returned, still holding the result queue's lock
        host = os.getpid()
        nap = params['slow_send']

        BasePool = Pool

        class SlowSendPool(BasePool):
            def _setup_queues(self):
                BasePool._setup_queues(self)
                w = self._outqueue._writer
                orig = w.send_bytes

                def send_bytes(*a, **k):
                    r = orig(*a, **k)
                    if os.getpid() != host:
                        time.sleep(nap)
                    return r
                w.send_bytes = send_bytes
        Pool = SlowSendPool
    pool = Pool(**kw)
    for w in pool._pool:
        if w.pid not in up:
            up.append(w.pid)
    return pool


def _outcome(getter):
    try:
        v = getter()
    except BaseException as exc:       # noqa
        n, a = exc_name(exc)
        return ['exc', n, repr(a)[:300], type(exc).__name__]
    return ['ok', v]


def _submit(pool, job, handles, gate=None):
    """job: {'kind','tag','n','dur','chunk','raise_at'}"""
    k = job['kind']
    tag = job['tag']
    if k == 'apply':
        if job.get('raise'):
            h = pool.apply_async(tasks.t_raise, (tag, 'TaskError', job.get('dur', 0)))
        else:
            def cb(v, t=tag, nap=job.get('cb_sleep', 0)):
                log('callback', tag=t)
                if nap:
                    time.sleep(nap)       # a slow (legitimate) result callback
            h = pool.apply_async(tasks.t_value, (tag, job.get('dur', 0)), callback=cb)
    else:
        durs = job.get('durs')
        items = [['%s.%d' % (tag, i), durs[i] if durs else job.get('dur', 0),
                  i == job.get('fail_at')]
                 for i in range(job['n'])]
        if k == 'map':
            h = pool.starmap_async(tasks.t_maybe, items, job.get('chunk'))
        elif k == 'imap':
            h = pool.imap(_star_value, items, job.get('chunk') or 1)
        else:
            h = pool.imap_unordered(_star_value, items, job.get('chunk') or 1)
    handles.append((job, h))
    return h


def _star_value(a):
    return tasks.t_maybe(*a)


def _collect(job, h, timeout):
    k = job['kind']
    if h is None:
        return ['refused']
    if k in ('apply', 'map'):
        if not h.ready():
            return ['unresolved']
        return _outcome(lambda: h.get(timeout))
    out = []
    done = threading.Event()

    def drain():
        try:
            while True:
                try:
                    out.append(['ok', h.next(timeout)] if hasattr(h, 'next')
                               else ['ok', next(h)])
                except StopIteration:
                    break
        except BaseException as exc:          # noqa  (TimeoutError = items missing)
            out.append(['exc', type(exc).__name__])
        done.set()
    th = threading.Thread(target=drain, daemon=True)
    th.start()
    if not done.wait(max(3.0, timeout * 4)):
        return ['items', list(out) + [['stuck']]]
    return ['items', out]


def _collect_all(h, timeout):
    """every item of an imap iterator with its arrival time: a failing item
    does not end the consumer (the iterator goes on with the remaining parts)"""
    from billiard.exceptions import TimeoutError as BTimeout
    out = []
    done = threading.Event()

    def drain():
        while True:
            try:
                # (a chunked imap hands out a plain generator)
                v = h.next(timeout) if hasattr(h, 'next') else next(h)
            except StopIteration:
                break
            except BTimeout:
                out.append(['timeout', None, None, time.monotonic()])
                break
            except BaseException as exc:          # noqa
                inner = exc.args[0] if getattr(exc, 'args', None) else exc
                e = getattr(inner, 'exception', inner)
                n, a = exc_name(e)
                out.append(['exc', n, repr(a)[:300], time.monotonic()])
            else:
                out.append(['ok', v, None, time.monotonic()])
        done.set()
    th = threading.Thread(target=drain, daemon=True)
    th.start()
    if not done.wait(timeout * 4 + 10):
        return ['items', list(out) + [['stuck', None, None, time.monotonic()]]]
    return ['items', out]


def _get(pool, h, timeout):
    """h.get(timeout); without helper threads the caller is the event loop"""
    if not pool.threads:
        t_end = time.monotonic() + timeout
        while not h.ready() and time.monotonic() < t_end:
            pool.handle_result_event()
            time.sleep(0.002)
    return h.get(timeout if pool.threads else 0)


def _pool_threads(before):
    from billiard.pool import PoolThread
    return [t for t in threading.enumerate()
            if t not in before and t.is_alive() and isinstance(t, PoolThread)]


def _thread_names(ths):
    return sorted(type(t).__name__ for t in ths)


# ---------------------------------------------------------------- C07 ----

def sc_close_join(params, obs, save):
    hb = Heartbeat()
    before = set(threading.enumerate())
    up = []
    extra = None
    mid = threading.Event()
    armed = []
    if params.get('grow_mid_close'):
        # close() lands while the supervisor is in the middle of a pass that
        # starts several workers (the public on_process_up hook marks it)
        def on_up(w):
            up.append(w.pid)
            log('process_up', wpid=w.pid)
            if armed and not mid.is_set():
                mid.set()
                time.sleep(params.get('hook_nap', 0.5))
        extra = {'on_process_up': on_up}
    pool = _mkpool(params, up, extra)
    handles = []
    t_sub = time.monotonic()
    for job in params['jobs']:
        _submit(pool, job, handles)
    if params.get('close_delay'):
        time.sleep(params['close_delay'])
    if params.get('grow_mid_close'):
        armed.append(1)
        pool.grow(params['grow_mid_close'])
        obs['mid_reached'] = mid.wait(10)
    producers = []
    for k in range(params.get('blocked_producers', 0)):
        # producers waiting for a put-lock slot at the moment of close()
        box = {'tag': 'late.%d' % k}

        def produce(box=box):
            box['h'] = pool.apply_async(tasks.t_value, (box['tag'], 0.05))
            box['returned'] = time.monotonic()
        th = threading.Thread(target=produce, daemon=True)
        th.start()
        producers.append((box, th))
    if producers:
        time.sleep(0.2)
        obs['producers_blocked_at_close'] = sum(1 for b, _t in producers if 'returned' not in b)
    log('close_call')
    t0 = time.monotonic()
    pool.close()
    obs['close_wall'] = time.monotonic() - t0
    # offers after close() must not be accepted
    post = []
    post.append(pool.apply_async(tasks.t_value, ('postclose.apply',)))
    post.append(pool.map_async(tasks.t_value, ['postclose.map0', 'postclose.map1']))
    post.append(pool.imap(tasks.t_value, ['postclose.imap0']))
    post.append(pool.imap_unordered(tasks.t_value, ['postclose.imapu0']))
    post.append(pool.apply(tasks.t_value, ('postclose.applysync',)))
    post.append(pool.map(tasks.t_value, ['postclose.mapsync']))
    obs['post_close_handles'] = [repr(type(x).__name__) if x is not None else None for x in post]
    save()
    log('join_call')
    t1 = time.monotonic()
    pool.join()
    obs['join_wall'] = time.monotonic() - t1
    log('join_returned')
    obs['since_submit'] = time.monotonic() - t_sub
    # processes and threads at the moment join() returned
    kids = dict(children_of(os.getpid()))
    obs['workers_after_join'] = {str(pid): (kids.get(pid) or pid_exists(pid)) for pid in up
                                 if (kids.get(pid) or pid_exists(pid))}
    obs['all_worker_pids'] = up
    left = _pool_threads(before)
    obs['threads_after_join'] = _thread_names(left)
    obs['results'] = [[job, _collect(job, h, 0.5)] for job, h in handles]
    obs['cache_left'] = len(pool._cache)
    pr = []
    for box, th in producers:
        th.join(3)
        if 'returned' not in box:
            pr.append([box['tag'], 'still_blocked', None])
        elif box['h'] is None:
            pr.append([box['tag'], 'refused', None])
        else:
            pr.append([box['tag'], 'handle', _collect({'kind': 'apply'}, box['h'], 0.5)])
    obs['producers'] = pr
    obs['worst_stall'] = hb.stop()
    save()
    try:
        pool.terminate()
    except Exception as exc:           # noqa
        obs['terminate_after_join_raised'] = repr(exc)
    obs['threads_after_terminate'] = _thread_names(_pool_threads(before))


# ---------------------------------------------------------------- C08 ----

def _wait_for(pred, timeout, step=0.01):
    t_end = time.monotonic() + timeout
    while time.monotonic() < t_end:
        if pred():
            return True
        time.sleep(step)
    return pred()


def sc_terminate(params, obs, save):
    """terminate() with workers in chosen states"""
    hb = Heartbeat()
    before = set(threading.enumerate())
    up = []
    pool = _mkpool(params, up)
    wd = os.environ.get('VERIF_WORKDIR', '/tmp')
    gate = os.path.join(wd, 'gate-%d' % os.getpid())
    done_before = []
    for i in range(params.get('finished_jobs', 2)):
        h = pool.apply_async(tasks.t_value, ('pre.%d' % i, 0.01))
        done_before.append(['pre.%d' % i, h, _get(pool, h, 30)])
    if params.get('maxtasks') and params.get('threads', True):
        # the jobs above used up quotas: wait for the replacement workers, so
        # that terminate() has to deal with workers started after the pool was
        _wait_for(lambda: len(up) > params['nproc'] and
                  len([w for w in pool._pool if w.exitcode is None]) == params['nproc'], 8)
        obs['replaced_before'] = len(up) - params['nproc']
    running = []
    state = params['worker_state']
    for i in range(params.get('busy', 1)):
        tag = 'run.%d' % i
        if state == 'python':
            h = pool.apply_async(tasks.t_busy, (tag, 60), **_lw(params))
        elif state == 'c_sleep':
            h = pool.apply_async(tasks.t_value, (tag, 60), **_lw(params))
        elif state == 'except_handler':
            h = pool.apply_async(tasks.t_in_handler, (tag, 60), **_lw(params))
        elif state == 'swallow_base':
            h = pool.apply_async(tasks.t_catch_base, (tag, 60), **_lw(params))
        elif state == 'translate':
            h = pool.apply_async(tasks.t_translate, (tag, 60), **_lw(params))
        elif state == 'ignore_term':
            h = pool.apply_async(tasks.t_ignore_term, (tag, 60), **_lw(params))
        elif state == 'sending_result':
            h = pool.apply_async(tasks.t_slow_result, (tag, 60), **_lw(params))
        else:
            h = None
        if h is not None:
            running.append([tag, h])
    queued = []
    for i in range(params.get('queued', 0)):
        tag = 'q.%d' % i
        queued.append([tag, pool.apply_async(tasks.t_value, (tag, 0.2), **_lw(params))])
    if running:
        _wait_for(lambda: all(h.accepted() for _t, h in running[:params['nproc']]), 10)
    feeding = params.get('feeding')
    if feeding == 'lazy_imap':
        # the task feeder is in the middle of one lazily produced sequence
        def slow_items():
            for i in range(200000):
                time.sleep(0.005)
                yield ['feed.%d' % i, 0]
        fed = pool.imap_unordered(_star_value, slow_items())      # noqa
    elif feeding == 'big_map':
        fed = pool.map_async(tasks.t_identity, range(300000), 1)  # noqa
    time.sleep(params.get('settle', 0.2))
    obs['running_pids'] = [h.worker_pids() for _t, h in running]
    save()
    log('terminate_call')
    t0 = time.monotonic()
    pool.terminate()
    obs['terminate_wall'] = time.monotonic() - t0
    log('terminate_returned')
    kids = dict(children_of(os.getpid()))
    obs['workers_after'] = {str(pid): (kids.get(pid) or pid_exists(pid)) for pid in up
                            if (kids.get(pid) or pid_exists(pid))}
    obs['all_worker_pids'] = list(up)
    # terminate() does not join the supervisor, which may still be finishing
    # its current sleep (<= 0.8 s + 10 x 0.1 s) without doing anything more:
    # tolerated for 3 s, recorded
    obs['threads_at_return'] = _thread_names(_pool_threads(before))
    _wait_for(lambda: not _pool_threads(before), 3.0)
    obs['threads_after'] = _thread_names(_pool_threads(before))
    # results delivered before the call stay intact
    obs['pre_results'] = [[t, v, _outcome(lambda h=h: h.get(0))] for t, h, v in done_before]
    obs['running_outcomes'] = [[t, (_outcome(lambda h=h: h.get(0)) if h.ready() else ['unresolved'])]
                               for t, h in running]
    save()
    # twice, then garbage collection: harmless
    t1 = time.monotonic()
    try:
        pool.terminate()
        obs['second_terminate'] = 'ok'
    except BaseException as exc:        # noqa
        obs['second_terminate'] = repr(exc)
    obs['second_terminate_wall'] = time.monotonic() - t1
    try:
        del pool
        gc.collect()
        obs['gc'] = 'ok'
    except BaseException as exc:        # noqa
        obs['gc'] = repr(exc)
    obs['worst_stall'] = hb.stop()


def _lw(params):
    return {'lost_worker_timeout': params.get('T') or 1.0}


def sc_gc_pool(params, obs, save):
    """letting the pool be garbage collected is harmless"""
    before = set(threading.enumerate())
    up = []
    pool = _mkpool(params, up)
    r = [pool.apply_async(tasks.t_value, ('g.%d' % i, 0.01)) for i in range(4)]
    obs['values'] = [_outcome(lambda h=h: h.get(20)) for h in r]
    t0 = time.monotonic()
    del pool
    gc.collect()
    obs['gc_wall'] = time.monotonic() - t0
    time.sleep(1.0)
    gc.collect()
    # (the pool's own threads keep it alive, so nothing is torn down here;
    # "harmless" = no exception, no hang, delivered results intact, and the
    # interpreter's exit handlers still run to completion)
    obs['values_after'] = [_outcome(lambda h=h: h.get(0)) for h in r]
    t1 = time.monotonic()
    try:
        from billiard import util
        util._exit_function()
        obs['exit_function'] = 'ok'
    except BaseException as exc:       # noqa
        obs['exit_function'] = repr(exc)
    obs['exit_function_wall'] = time.monotonic() - t1
    kids = dict(children_of(os.getpid()))
    obs['workers_after_exit_function'] = {
        str(pid): (kids.get(pid) or pid_exists(pid)) for pid in up
        if (kids.get(pid) or pid_exists(pid)) not in (None, 'Z')}


def sc_signal_worker(params, obs, save):
    """a worker receives a termination signal (operator, terminate_job, hard
    limit) while in a chosen state; afterwards the pool must go on working"""
    hb = Heartbeat()
    up = []
    extra = {}
    if params['source'] == 'hard_limit':
        extra['timeout'] = params.get('limit', 1.0)
    pool = _mkpool(params, up, extra)
    state = params['worker_state']
    T = params.get('T') or 1.0
    sig = params.get('sig', int(signal.SIGTERM))
    victims = []
    if state == 'idle':
        # make sure every worker has finished starting up (its signal
        # handlers are installed) and is back in its receive loop
        seen = set()
        t_end = time.monotonic() + 20
        while len(seen) < params['nproc'] and time.monotonic() < t_end:
            hs = [pool.apply_async(tasks.t_pid, ('warm', 0.15)) for _ in range(params['nproc'])]
            for x in hs:
                seen.add(x.get(20)[2])
        time.sleep(0.3)
        victim = sorted(seen)[0] if seen else None
        h = None
    else:
        fn = {'python': tasks.t_busy, 'c_sleep': tasks.t_value,
              'except_handler': tasks.t_in_handler, 'translate': tasks.t_translate,
              'sending_result': tasks.t_slow_result}[state]
        h = pool.apply_async(fn, ('victim', 30), lost_worker_timeout=T)
        if not _wait_for(lambda: h.accepted(), 10):
            obs['not_accepted'] = True
        victim = (h.worker_pids() or [None])[0]
        time.sleep(params.get('settle', 0.3))
    obs['victim'] = victim
    if victim is None:
        obs['no_victim'] = True
        pool.terminate()
        return
    others = []
    if state != 'idle':
        others = [pool.apply_async(tasks.t_value, ('other.%d' % i, 0.3), lost_worker_timeout=T)
                  for i in range(params.get('others', 2))]
    save()
    log('signal_sent', wpid=victim, sig=sig, source=params['source'])
    t0 = time.monotonic()
    if params['source'] == 'operator':
        os.kill(victim, sig)
    elif params['source'] == 'terminate_job':
        pool.terminate_job(victim, sig)
    elif params['source'] == 'hard_limit':
        pass              # the pool sends it when the limit expires
    # the victim's job must resolve (Terminated / WorkerLostError / TimeLimitExceeded)
    if h is not None:
        _wait_for(lambda: h.ready(), params.get('resolve_wait', 15))
        obs['victim_resolved_after'] = time.monotonic() - t0
        obs['victim_outcome'] = _outcome(lambda: h.get(0)) if h.ready() else ['unresolved']
    gone = _wait_for(lambda: pid_exists(victim) in (None, 'Z'), 8)
    obs['victim_gone_after'] = time.monotonic() - t0
    obs['victim_state'] = pid_exists(victim)
    if params.get('second_signal') and not gone:
        log('second_signal_sent', wpid=victim, sig=sig)
        os.kill(victim, sig)
        _wait_for(lambda: pid_exists(victim) in (None, 'Z'), 5)
        obs['victim_state_after_second'] = pid_exists(victim)
    if state == 'idle':
        others = [pool.apply_async(tasks.t_value, ('other.%d' % i, 0.3), lost_worker_timeout=T)
                  for i in range(params.get('others', 2))]
    obs['others'] = [_outcome(lambda o=o: o.get(20)) for o in others]
    # the pool goes on serving later jobs
    later = [pool.apply_async(tasks.t_pid, ('later.%d' % i, 0.05), lost_worker_timeout=T)
             for i in range(params.get('later', 3))]
    obs['later'] = [_outcome(lambda o=o: o.get(12)) for o in later]
    obs['pool_pids_end'] = [w.pid for w in pool._pool]
    obs['worst_stall'] = hb.stop()
    save()
    t1 = time.monotonic()
    pool.terminate()
    obs['terminate_wall'] = time.monotonic() - t1


# ------------------------------------------------------- C05 / C06 -------

def _stamp_cb(store, key):
    def cb(*a, **kw):
        store.setdefault(key, []).append([time.monotonic(), list(a), kw])
    return cb


def sc_hard_limit(params, obs, save):
    """one over-limit (or in-limit) job, with map/imap jobs sharing the pool
    and probe jobs afterwards"""
    hb = Heartbeat()
    up = []
    params = dict(params, enable_timeouts=True)   # per-job limits need the scanner
    pool = _mkpool(params, up)
    cbs = {}
    eff = params['eff_limit']
    dur = params['dur']
    fn = {'c_sleep': tasks.t_value, 'python': tasks.t_busy, 'ignore_term': tasks.t_ignore_term,
          'in_handler': tasks.t_in_handler, 'catch_base': tasks.t_catch_base,
          'translate': tasks.t_translate}[params['task']]
    kw = {}
    if params.get('job_hard') is not None:
        kw['timeout'] = params['job_hard']
    if params.get('warm'):
        # every worker has reported one failing job already (its error path is warm)
        for w in range(2 * params['nproc']):
            _outcome(lambda: pool.apply_async(tasks.t_raise, ('warm.%d' % w, 'KeyError', 0.05),
                                              timeout=60).get(20))
    siblings = []
    if params.get('siblings'):
        # map / imap on the same pool: they take no limit and run longer than it
        items = [['sib.%d' % i, (eff or 1.0) * 0.7] for i in range(3)]
        siblings.append(['map', pool.starmap_async(tasks.t_value, items, 1)])
        siblings.append(['imap', pool.imap(_star_value, [['isib.%d' % i, (eff or 1.0) * 0.7]
                                                         for i in range(2)])])
    t_sub = time.monotonic()
    follower = None
    if params.get('slow_cb'):
        # the job finishes in time, but its result callback is still running
        # in the result handler when the limit's instant passes
        kw['callback'] = lambda v, nap=params['slow_cb']: time.sleep(nap)
    h = pool.apply_async(fn, ('victim', dur), accept_callback=_stamp_cb(cbs, 'accept'),
                         timeout_callback=_stamp_cb(cbs, 'timeout'),
                         lost_worker_timeout=2.0, **kw)
    if params.get('slow_cb'):
        follower = pool.apply_async(tasks.t_value, ('follower', params['slow_cb'] + 1.0),
                                    timeout=60)
    queued = None
    if params.get('queued_behind'):
        # waiting in the queue when the limit strikes: the replacement serves it
        queued = [pool.apply_async(tasks.t_value, ('queued.%d' % q, 0.3), timeout=60)
                  for q in range(params['queued_behind'])]
    _wait_for(lambda: h.ready(), dur + (eff or 0) + 25 + (params.get('slow_cb') or 0))
    t_res = time.monotonic()
    time.sleep(0.3)           # callbacks run right after the outcome is set
    obs['resolved'] = h.ready()
    obs['outcome'] = _outcome(lambda: h.get(0)) if h.ready() else ['unresolved']
    acc = cbs.get('accept')
    obs['accept'] = acc[0][1] if acc else None
    obs['t_accept_to_resolution'] = (t_res - acc[0][0]) if acc else None
    obs['timeout_cb'] = [[c[2].get('soft'), c[2].get('timeout')] for c in cbs.get('timeout', [])]
    victim = acc[0][1][0] if acc else None
    obs['victim'] = victim
    if victim and obs['outcome'][0] == 'exc' and obs['outcome'][1] == 'TimeLimitExceeded':
        gone = _wait_for(lambda: pid_exists(victim) in (None, 'Z'), 6)
        obs['victim_gone_after'] = time.monotonic() - t_res
        obs['victim_state'] = pid_exists(victim)
    save()
    obs['siblings'] = [[k, _collect({'kind': k}, s, 20) if k != 'map'
                        else _outcome(lambda s=s: s.get(30))] for k, s in siblings]
    if follower is not None:
        obs['follower'] = _outcome(lambda: follower.get(params['slow_cb'] + 30))
        obs['victim_state_end'] = pid_exists(victim) if victim else None
    if queued is not None:
        obs['queued'] = [_outcome(lambda o=o: o.get(30)) for o in queued]
    probes = [pool.apply_async(tasks.t_pid, ('probe.%d' % i, 0.05)) for i in range(params.get('probes', 3))]
    obs['probes'] = [_outcome(lambda o=o: o.get(20)) for o in probes]
    obs['worst_stall'] = hb.stop()
    save()
    pool.terminate()


def sc_soft_limit(params, obs, save):
    hb = Heartbeat()
    up = []
    params = dict(params, enable_timeouts=True)   # per-job limits need the scanner
    extra = None
    if params.get('init_signals'):
        extra = {'initializer': tasks.init_touch_signals,
                 'initargs': (params['init_signals'],)}
    pool = _mkpool(params, up, extra)
    cbs = {}
    kw = {}
    if params.get('job_soft') is not None:
        kw['soft_timeout'] = params['job_soft']
    if params.get('job_hard') is not None:
        kw['timeout'] = params['job_hard']
    if params.get('slow_cb'):
        # the job finishes in time, but its result callback is still running
        # in the result handler when the soft limit's instant passes
        kw['callback'] = lambda v, nap=params['slow_cb']: time.sleep(nap)
    h = pool.apply_async(tasks.t_catch_soft, ('victim', params['dur'], params.get('catch', True)),
                         accept_callback=_stamp_cb(cbs, 'accept'),
                         timeout_callback=_stamp_cb(cbs, 'timeout'), **kw)
    # back-to-back job on the same pool, without any soft limit of its own
    # when the pool has none (stale-signal trap on a one-worker pool)
    h2 = pool.apply_async(tasks.t_catch_soft, ('next', params.get('next_dur', 1.5), True),
                          soft_timeout=params.get('next_soft'))
    if params.get('close_while_running'):
        # the shutdown drain of the result handler must not scan a second time
        _wait_for(lambda: h.accepted(), 10)
        pool.close()
        threading.Thread(target=pool.join, daemon=True).start()
    _wait_for(lambda: h.ready(), params['dur'] + 25 + (params.get('slow_cb') or 0))
    obs['outcome'] = _outcome(lambda: h.get(0)) if h.ready() else ['unresolved']
    _wait_for(lambda: h2.ready(), params.get('next_dur', 1.5) + 25)
    obs['next_outcome'] = _outcome(lambda: h2.get(0)) if h2.ready() else ['unresolved']
    obs['timeout_cb'] = [[c[2].get('soft'), c[2].get('timeout')] for c in cbs.get('timeout', [])]
    obs['worst_stall'] = hb.stop()
    save()
    pool.terminate()


# ---------------------------------------------------------------- C04 ----

def sc_worker_death(params, obs, save):
    hb = Heartbeat()
    up = []
    pool = _mkpool(params, up)
    T = params['T_job']
    kind = params['job_kind']
    how, point = params['how'], params['point']
    cbs = {}
    others = [pool.apply_async(tasks.t_value, ('other.%d' % i, params.get('other_dur', 0.6)),
                               lost_worker_timeout=T)
              for i in range(params.get('others', 1))]
    t0 = time.monotonic()
    external = params.get('external')
    if kind == 'apply':
        if external:
            h = pool.apply_async(tasks.t_value, ('victim', 30), lost_worker_timeout=T,
                                 accept_callback=_stamp_cb(cbs, 'accept'))
        else:
            h = pool.apply_async(tasks.t_selfkill, ('victim', how, point, 0.15),
                                 lost_worker_timeout=T, accept_callback=_stamp_cb(cbs, 'accept'))
    elif kind == 'map':
        items = [['m.%d' % i, 'none' if i != 1 else how, point] for i in range(3)]
        h = pool.map_async(_maybe_kill, items, 1)
    else:
        chunk = params.get('chunk') or 1
        items = [['i.%d' % i, 'none' if i != 1 else how, point]
                 for i in range(3 if chunk == 1 else 2 * chunk)]
        f = pool.imap if kind == 'imap' else pool.imap_unordered
        h = f(_maybe_kill, items, chunk, lost_worker_timeout=T)
        if chunk == 1:
            # when the parent processed the acknowledgement of the part that dies
            # (recording wrapper on this handle only)
            orig_ack = h._ack

            def _ack(i, time_accepted, pid, *a):
                if i == 1:
                    obs['accept_t'], obs['victim'] = time.monotonic(), pid
                return orig_ack(i, time_accepted, pid, *a)
            h._ack = _ack
    if external:
        _wait_for(lambda: 'accept' in cbs, 10)
        time.sleep(params.get('ext_delay', 0.2))
        victim = cbs['accept'][0][1][0]
        log('task_dying', tag='victim', external=True, wpid=victim)
        os.kill(victim, int(how[4:]))
    obs['job_id'] = h._job if hasattr(h, '_job') else None
    wait = (10.0 if kind == 'map' else T) + 12
    if kind == 'apply':
        _wait_for(lambda: 'accept' in cbs, 10)
        if 'accept' in cbs:
            obs['accept_t'] = cbs['accept'][0][0]
            obs['victim'] = cbs['accept'][0][1][0]
    if kind in ('apply', 'map'):
        _wait_for(lambda: h.ready(), wait)
        obs['t_resolved'] = time.monotonic()
        obs['outcome'] = _outcome(lambda: h.get(0)) if h.ready() else ['unresolved']
    else:
        obs['outcome'] = _collect_all(h, wait)
        obs['t_resolved'] = time.monotonic()
    obs['others'] = [_outcome(lambda o=o: o.get(20)) for o in others]
    # pool size restored (supervision period 0.8 s)
    _wait_for(lambda: len([w for w in pool._pool if w._is_alive()]) == params['nproc'], 6)
    obs['live_workers'] = len([w for w in pool._pool if w._is_alive()])
    obs['ups'] = len(up)
    probes = [pool.apply_async(tasks.t_pid, ('probe.%d' % i, 0.02)) for i in range(2)]
    obs['probes'] = [_outcome(lambda o=o: o.get(20)) for o in probes]
    obs['cache_left'] = len(pool._cache)
    obs['worst_stall'] = hb.stop()
    save()
    pool.terminate()


def _maybe_kill(a):
    tag, how, point = a
    if how == 'none':
        return tasks.t_value(tag, 0.3)
    return tasks.t_selfkill(tag, how, point, 0.15)


# ---------------------------------------------------------------- C09 ----

def sc_recycle(params, obs, save):
    hb = Heartbeat()
    up = []
    pool = _mkpool(params, up)
    handles = []
    t0 = time.monotonic()
    for job in params['jobs']:
        _submit(pool, job, handles)
    if params.get('kill_idle'):
        time.sleep(0.5)
    res = []
    for job, h in handles:
        if job['kind'] in ('apply', 'map'):
            res.append([job, _outcome(lambda h=h: h.get(params.get('wait', 60)))])
        else:
            res.append([job, _collect(job, h, params.get('wait', 60))])
    obs['results'] = res
    obs['wall'] = time.monotonic() - t0
    # let supervision bring the pool back to size (a recycling worker sleeps
    # 1 s in its exit path, supervision runs every 0.8 s)
    _wait_for(lambda: len([w for w in pool._pool if w._is_alive()]) == params['nproc'], 10)
    obs['live_workers'] = len([w for w in pool._pool if w._is_alive()])
    obs['indices'] = sorted(getattr(w, 'index', -1) for w in pool._pool)
    obs['ups'] = len(up)
    obs['cache_left'] = len(pool._cache)
    obs['worst_stall'] = hb.stop()
    save()
    pool.terminate()


def sc_kill_idle(params, obs, save):
    """workers killed while idle are replaced; no job is affected"""
    up = []
    pool = _mkpool(params, up)
    seen = set()
    t_end = time.monotonic() + 20
    while len(seen) < params['nproc'] and time.monotonic() < t_end:
        hs = [pool.apply_async(tasks.t_pid, ('warm', 0.1)) for _ in range(params['nproc'])]
        for x in hs:
            seen.add(x.get(20)[2])
    time.sleep(0.4)
    # one idle worker sits in the blocking read holding the task queue's read
    # lock, the others wait for that lock
    def wchan(pid):
        try:
            return open('/proc/%d/wchan' % pid).read()
        except OSError:
            return ''
    holders = [p for p in sorted(seen) if 'pipe' in wchan(p)]
    waiters = [p for p in sorted(seen) if p not in holders]
    obs['holders'], obs['waiters'] = holders, waiters
    if params.get('victim_kind') == 'holder':
        victims = holders[:1]
    elif params.get('victim_kind') == 'waiter':
        victims = waiters[:params.get('kill', 1)]
    else:
        victims = sorted(seen)[:params.get('kill', 1)]
    obs['victims'] = victims
    obs['victim_held_queue_lock'] = any(v in holders for v in victims)
    for v in victims:
        log('idle_kill', wpid=v)
        os.kill(v, params.get('sig', 9))
    hs = [pool.apply_async(tasks.t_pid, ('after.%d' % i, 0.05)) for i in range(6)]
    t_end = time.monotonic() + 25
    obs['after'] = [_outcome(lambda o=o: o.get(max(0.5, t_end - time.monotonic()))) for o in hs]
    _wait_for(lambda: len([w for w in pool._pool if w._is_alive()]) == params['nproc']
              and not any(w.pid in victims for w in pool._pool), 6)
    obs['live_workers'] = len([w for w in pool._pool if w._is_alive()])
    obs['victims_still_in_pool'] = [w.pid for w in pool._pool if w.pid in victims]
    obs['indices'] = sorted(getattr(w, 'index', -1) for w in pool._pool)
    obs['ups'] = len(up)
    save()
    pool.terminate()


# ---------------------------------------------------------------- C10 ----

def sc_putlocks(params, obs, save):
    up = []
    params = dict(params, putlocks=True)
    pool = _mkpool(params, up)
    n = params['nproc']
    wd = os.environ.get('VERIF_WORKDIR', '/tmp')
    gate = os.path.join(wd, 'gate-%d' % os.getpid())
    first = [pool.apply_async(tasks.t_gate, ('hold.%d' % i, gate, 40)) for i in range(n)]
    _wait_for(lambda: all(h.accepted() for h in first), 15)
    ev = {}

    def submitter():
        ev['t_call'] = time.monotonic()
        h = pool.apply_async(tasks.t_value, ('blocked', 0.01))
        ev['t_return'] = time.monotonic()
        ev['h'] = h
    th = threading.Thread(target=submitter, daemon=True)
    th.start()
    time.sleep(params.get('hold', 1.0))
    obs['submitter_returned_while_full'] = 't_return' in ev
    with pool._putlock._cond:
        obs['value_while_full'] = pool._putlock._value
    t_open = time.monotonic()
    open(gate, 'w').close()
    log('gate_open')
    th.join(20)
    obs['submitter_returned_after_open'] = 't_return' in ev
    obs['return_minus_open'] = (ev['t_return'] - t_open) if 't_return' in ev else None
    obs['first'] = [_outcome(lambda o=o: o.get(20)) for o in first]
    if 'h' in ev:
        obs['blocked_outcome'] = _outcome(lambda: ev['h'].get(20))
    # a burst of submissions: never more than n in flight
    hs = [pool.apply_async(tasks.t_value, ('burst.%d' % i, 0.05)) for i in range(3 * n + 2)]
    obs['burst'] = [_outcome(lambda o=o: o.get(30))[0] for o in hs]
    time.sleep(0.3)
    with pool._putlock._cond:
        obs['value_at_quiescence'] = pool._putlock._value
        obs['bound'] = pool._putlock._initial_value
    save()
    pool.terminate()


def sc_putlocks_close(params, obs, save):
    """more producers blocked in apply_async than there are slots when close()
    comes: every one of them returns (without a job), the running jobs finish,
    and the quiet pool has all its slots free - nobody keeps a slot for a job
    that does not exist"""
    up = []
    params = dict(params, putlocks=True)
    pool = _mkpool(params, up)
    n = params['nproc']
    wd = os.environ.get('VERIF_WORKDIR', '/tmp')
    gate = os.path.join(wd, 'gate-%d' % os.getpid())
    first = [pool.apply_async(tasks.t_gate, ('hold.%d' % i, gate, 60)) for i in range(n)]
    _wait_for(lambda: all(h.accepted() for h in first), 15)
    k = params['producers']
    ret = {}

    def producer(i):
        h = pool.apply_async(tasks.t_value, ('late.%d' % i, 0.01))
        ret[i] = (time.monotonic(), h is not None)
    ths = [threading.Thread(target=producer, args=(i,), daemon=True) for i in range(k)]
    for t in ths:
        t.start()
    time.sleep(params.get('hold', 1.0))
    obs['returned_while_full'] = len(ret)
    pool.close()
    t_close = time.monotonic()
    log('closed')
    _wait_for(lambda: len(ret) == k, 8)
    obs['returned_after_close'] = len(ret)
    obs['handles_after_close'] = sum(1 for v in ret.values() if v[1])
    open(gate, 'w').close()
    obs['first'] = [_outcome(lambda o=o: o.get(30)) for o in first]
    _wait_for(lambda: len(ret) == k, 10)
    obs['returned_at_quiescence'] = len(ret)
    time.sleep(0.5)
    with pool._putlock._cond:
        obs['value_at_quiescence'] = pool._putlock._value
        obs['bound'] = pool._putlock._initial_value
    save()
    pool.terminate()


# ---------------------------------------------------------------- C11 ----

def sc_startup_burst(params, obs, save):
    """workers that exit in their initializer: the start-up burst limit"""
    got = []
    signal.signal(signal.SIGTERM, lambda s, f: got.append(time.monotonic()))
    up = []
    t0 = time.monotonic()
    pool = _mkpool(params, up, {'initializer': tasks.init_exit_immediately,
                                'max_restarts': params.get('max_restarts'),
                                'max_restart_freq': params.get('max_restart_freq', 1)})
    # the supervisor answers the limiter with close()+join() and a TERM to the host
    _wait_for(lambda: bool(got), params.get('wait', 25))
    obs['host_termed_after'] = (got[0] - t0) if got else None
    obs['ups'] = len(up)
    time.sleep(0.5)
    obs['ups_late'] = len(up)
    obs['pool_state'] = pool._state
    save()


def sc_death_after_close(params, obs, save):
    """a worker dies mid-task after close(): the loss must still be reported
    (by the result handler's shutdown loop) and join() must return"""
    hb = Heartbeat()
    up = []
    pool = _mkpool(params, up)
    T = params['T_job']
    cbs = {}
    gate = os.path.join(os.environ.get('VERIF_WORKDIR', '/tmp'), 'gate-%d' % os.getpid())
    h = pool.apply_async(tasks.t_selfkill, ('victim', params['how'], 'mid', params.get('delay', 1.0)),
                         lost_worker_timeout=T, accept_callback=_stamp_cb(cbs, 'accept'))
    others = [pool.apply_async(tasks.t_value, ('other.%d' % i, 0.2), lost_worker_timeout=T)
              for i in range(params.get('others', 0))]
    _wait_for(lambda: 'accept' in cbs, 10)
    obs['accepted'] = 'accept' in cbs
    log('close_call')
    pool.close()
    joined = threading.Event()

    def do_join():
        pool.join()
        joined.set()
    th = threading.Thread(target=do_join, daemon=True)
    t0 = time.monotonic()
    th.start()
    _wait_for(lambda: h.ready(), T + 25)
    obs['t_resolved'] = time.monotonic()
    obs['outcome'] = _outcome(lambda: h.get(0)) if h.ready() else ['unresolved']
    obs['others'] = [_outcome(lambda o=o: o.get(15)) for o in others]
    joined.wait(40)
    obs['join_returned'] = joined.is_set()
    obs['join_wall'] = time.monotonic() - t0
    obs['job_id'] = h._job
    obs['worst_stall'] = hb.stop()
    save()
    pool.terminate()


def sc_terminate_during_supervision(params, obs, save):
    """terminate() arrives while the supervisor is in the middle of a pass
    that has just reaped a dead worker (window widened by a slow, legitimate
    on_process_down hook): no replacement may be started after it"""
    hb = Heartbeat()
    before = set(threading.enumerate())
    up = []
    in_hook = threading.Event()

    def slow_down_hook(w):
        log('process_down', wpid=w.pid, exitcode=w.exitcode)
        in_hook.set()
        time.sleep(params.get('hook_sleep', 1.2))
    if params.get('window') == 'create':
        # the supervisor is descheduled while it builds the replacement worker:
        # after its "is the pool still running" test, before the worker is started
        pool = _mkpool(params, up, {'on_process_down':
                                    lambda w: log('process_down', wpid=w.pid, exitcode=w.exitcode)})
        orig_queues = pool.get_process_queues

        def slow_queues():
            in_hook.set()
            time.sleep(params.get('hook_sleep', 1.2))
            return orig_queues()
    else:
        pool = _mkpool(params, up, {'on_process_down': slow_down_hook})
    seen = set()
    t_end = time.monotonic() + 20
    while len(seen) < params['nproc'] and time.monotonic() < t_end:
        hs = [pool.apply_async(tasks.t_pid, ('warm', 0.1)) for _ in range(params['nproc'])]
        for x in hs:
            seen.add(x.get(20)[2])
    time.sleep(0.4)
    if params.get('window') == 'create':
        pool.get_process_queues = slow_queues     # (delays only; replacements from now on)

    def wchan(pid):
        try:
            return open('/proc/%d/wchan' % pid).read()
        except OSError:
            return ''
    waiters = [p for p in sorted(seen) if 'pipe' not in wchan(p)]
    if not waiters:
        obs['no_victim'] = True
        pool.terminate()
        return
    victim = waiters[0]
    obs['victim'] = victim
    log('idle_kill', wpid=victim)
    os.kill(victim, signal.SIGKILL)
    obs['hook_entered'] = in_hook.wait(10)
    time.sleep(params.get('offset', 0.1))
    log('terminate_call')
    t0 = time.monotonic()
    pool.terminate()
    obs['terminate_wall'] = time.monotonic() - t0
    log('terminate_returned')
    time.sleep(params.get('hook_sleep', 1.2) + 1.5)    # let the supervisor finish its pass
    kids = dict(children_of(os.getpid()))
    obs['workers_after'] = {str(pid): (kids.get(pid) or pid_exists(pid)) for pid in up
                            if (kids.get(pid) or pid_exists(pid)) not in (None,)}
    obs['ups'] = len(up)
    obs['threads_after'] = _thread_names(_pool_threads(before))
    obs['worst_stall'] = hb.stop()


def sc_grow_shrink(params, obs, save):
    """grow() / shrink() on a real pool: supervision follows the target"""
    up = []
    pool = _mkpool(params, up)
    n = params['nproc']

    def live():
        return len([w for w in pool._pool if w._is_alive()])

    def pids_serving(k, dur=0.3):
        hs = [pool.apply_async(tasks.t_pid, ('g', dur)) for _ in range(k)]
        return sorted({h.get(30)[2] for h in hs})
    obs['live_start'] = live()
    pool.grow(params['grow'])
    _wait_for(lambda: live() == n + params['grow'], 8)
    obs['live_after_grow'] = live()
    obs['indices_after_grow'] = sorted(getattr(w, 'index', -1) for w in pool._pool)
    # a grown worker that is alive may still be starting up on a loaded machine:
    # several rounds before "the new workers serve nothing" is believed
    served = set()
    for _round in range(8):
        served |= set(pids_serving(3 * (n + params['grow'])))
        if len(served) >= min(n + params['grow'], 2):
            break
    obs['pids_after_grow'] = sorted(served)
    time.sleep(0.5)          # everybody idle again
    try:
        pool.shrink(params['shrink'])
        obs['shrink'] = 'ok'
    except ValueError as exc:
        obs['shrink'] = repr(exc)
    target = n + params['grow'] - (params['shrink'] if obs['shrink'] == 'ok' else 0)
    _wait_for(lambda: live() == target and len(pool._pool) == target, 10)
    time.sleep(1.0)          # one more supervision period: nothing may come back
    obs['live_after_shrink'] = live()
    obs['pool_len_after_shrink'] = len(pool._pool)
    obs['target_after_shrink'] = target
    obs['indices_after_shrink'] = sorted(getattr(w, 'index', -1) for w in pool._pool)
    obs['after'] = [_outcome(lambda: pool.apply_async(tasks.t_pid, ('s', 0.05)).get(20))
                    for _ in range(4)]
    obs['ups'] = len(up)
    save()
    pool.terminate()


def sc_ack_window(params, obs, save):
    """the result handler is descheduled at one line of ApplyResult._ack (a
    LINE event of sys.monitoring naps there) while another pool thread - the
    timeout scanner, or the supervisor after the worker was killed - resolves
    the same job: the accept callback must still come first"""
    import sys
    from billiard.pool import ApplyResult
    up = []
    params = dict(params, enable_timeouts=True, nproc=1)
    pool = _mkpool(params, up)
    cbs = []
    lk = threading.Lock()

    def stamp(which):
        def cb(*a, **kw):
            with lk:
                cbs.append([which, time.monotonic(), exc_name(a[0]) if which == 'err' and a else None])
        return cb
    # warm the worker up first: only the victim's _ack is slowed down
    pool.apply_async(tasks.t_value, ('warm', 0)).get(20)
    mon = sys.monitoring
    tool = mon.PROFILER_ID
    mon.use_tool_id(tool, 'vmon-ackwin')
    code = ApplyResult._ack.__code__
    state = {'n': 0, 'napped': None}
    napping = threading.Event()

    def on_line(c, line):
        if c is not code:
            return mon.DISABLE
        state['n'] += 1
        if state['n'] == params['line']:
            state['napped'] = line - code.co_firstlineno
            napping.set()
            time.sleep(params['nap'])
    mon.register_callback(tool, mon.events.LINE, on_line)
    mon.set_local_events(tool, code, mon.events.LINE)
    resolver = params['resolver']
    kw = {'timeout': 0.3} if resolver == 'hard' else {}
    try:
        h = pool.apply_async(tasks.t_value, ('victim', 30), accept_callback=stamp('accept'),
                             callback=stamp('ok'), error_callback=stamp('err'),
                             lost_worker_timeout=0.5, **kw)
        napping.wait(20)
        obs['nap_reached'] = napping.is_set()
        obs['nap_at_line'] = state['napped']
        if resolver != 'hard':
            # the owner is recorded under the job's lock: from then on the
            # supervisor can find the job
            # (killing the worker before that is the ACK-after-reap history,
            # which is not what this scenario is about)
            t0 = time.monotonic()
            while time.monotonic() < t0 + params['nap'] + 10 and not h._worker_pid:
                time.sleep(0.01)
            obs['owner_seen_during_nap'] = time.monotonic() - t0 < params['nap'] * 0.5
            if resolver == 'termjob':
                pool.terminate_job(up[0], signal.SIGTERM)
            else:
                os.kill(up[0], signal.SIGKILL)
        _wait_for(lambda: h.ready(), 25)
        time.sleep(params['nap'] + 0.5)
    finally:
        mon.set_local_events(tool, code, 0)
        mon.register_callback(tool, mon.events.LINE, None)
        mon.free_tool_id(tool)
    obs['ack_lines_seen'] = state['n']
    obs['outcome'] = _outcome(lambda: h.get(0)) if h.ready() else ['unresolved']
    with lk:
        obs['cbs'] = list(cbs)
    save()
    probe = pool.apply_async(tasks.t_pid, ('probe', 0.05))
    obs['probe'] = _outcome(lambda: probe.get(20))
    save()
    pool.terminate()
