"""REAL lane of C04 (worker dies mid-task) - monitor side: fault matrix"""
import signal

from vmon.core import rng_for
from vmon import real

SIGS = ['SIGKILL', 'SIGSEGV', 'SIGBUS', 'SIGFPE', 'SIGILL']
EXITS = [0, 1, 2, 70, 155, 255]
POINTS = ['entry', 'mid', 'handler', 'finally', 'before_return']


def human_status(how):
    if how.startswith('sig:'):
        n = int(how[4:])
        name = {int(getattr(signal, s)): s for s in SIGS + ['SIGABRT']}.get(n)
        if name is None:                      # real-time signals have no name
            return 'signal %d' % n
        return 'signal %d (%s)' % (n, name)
    if how == 'abort':
        return 'signal %d (SIGABRT)' % int(signal.SIGABRT)
    return 'exitcode %s' % how[5:]


def _names(msg, want):
    import re
    return re.search(re.escape(want) + r'(?!\d)', msg) is not None


def plan(tier, seed):
    rng = rng_for(seed, 'c04real')
    causes = ['sig:%d' % int(getattr(signal, s)) for s in SIGS] + ['abort'] + \
        ['exit:%d' % n for n in EXITS] + \
        ['sig:%d' % n for n in (signal.SIGRTMIN + 6, signal.SIGRTMAX)]   # unnamed signals
    cells = []
    for how in causes:
        for point in POINTS:
            cells.append((how, point, 'apply', False))
    for how in causes[:5]:
        cells.append((how, 'mid', 'apply', True))          # killed from outside
    rng.shuffle(cells)
    n = 18 if tier == 'quick' else len(cells)
    chosen = cells[:n]
    if tier == 'quick' and not any(int(c[0][4:]) >= signal.SIGRTMIN for c in chosen
                                   if c[0].startswith('sig:')):
        chosen.append(('sig:%d' % (signal.SIGRTMIN + 6), 'mid', 'apply', False))
    extra_kinds = [('sig:9', 'mid', 'map', False), ('exit:1', 'mid', 'imap_u', False),
                   ('sig:11', 'entry', 'imap', False),
                   # chunked: the caller's grace period must reach the chunked handle too
                   ('sig:9', 'mid', 'imap_u', False, 2), ('exit:70', 'mid', 'imap', False, 2)]
    if tier != 'quick':
        extra_kinds += [(h, p, k, False) for h in ('sig:9', 'exit:155', 'exit:0')
                        for p in ('entry', 'finally') for k in ('map', 'imap', 'imap_u')]
    specs = []
    for cell in chosen + extra_kinds:
        (how, point, kind, ext), chunk = cell[:4], (cell[4] if len(cell) > 4 else 1)
        nproc = rng.choice([1, 2, 3, 4])
        specs.append({'lane': 'real', 'timeout': 100, 'params': {
            'chunk': chunk,
            'how': how, 'point': point, 'job_kind': kind, 'external': ext, 'nproc': nproc,
            'T_job': rng.choice([0.3, 1.0]), 'T': 2.0,
            'others': 0 if nproc == 1 else rng.choice([1, nproc - 1]), 'other_dur': 0.6}})
    # the worker dies after close(): detection is then up to the result handler's shutdown loop
    for (nproc, how, T) in ((1, 'sig:9', 1.0), (2, 'exit:1', 0.3)) if tier == 'quick' else \
            ((1, 'sig:9', 1.0), (2, 'exit:1', 0.3), (1, 'sig:11', 0.3), (3, 'exit:70', 2.0),
             (1, 'exit:0', 1.0)):
        specs.append({'lane': 'real', 'after_close': True, 'timeout': 120, 'params': {
            'nproc': nproc, 'how': how, 'T_job': T, 'T': 2.0, 'delay': 1.0,
            'others': 0 if nproc == 1 else 2}})
    # negative scenarios: recycling with long map/imap jobs - nothing may be reported lost
    for mt in ((1, 2) if tier == 'quick' else (1, 2, 5)):
        specs.append({'lane': 'real', 'neg': True, 'timeout': 150, 'params': {
            'nproc': 2, 'maxtasks': mt, 'T': 1.0, 'wait': 100, 'jobs': [
                {'kind': 'map', 'tag': 'nm', 'n': 8, 'dur': 0.25, 'chunk': 1},
                {'kind': 'imap_u', 'tag': 'nu', 'n': 6, 'dur': 0.2, 'chunk': 1},
                {'kind': 'imap', 'tag': 'ni', 'n': 6, 'dur': 0.2, 'chunk': 1}]}})
    return specs


def run_spec(spec, rec):
    p = spec['params']
    if spec.get('neg'):
        return run_negative(spec, rec)
    if spec.get('after_close'):
        return run_after_close(spec, rec)
    r = real.run_scenario('vmon.real_pool', 'sc_worker_death', p, timeout=spec['timeout'] - 25)
    obs, ev = r['obs'], r['events']
    if r['status'] == 'scenario_error':
        raise RuntimeError('scenario error: ' + obs.get('scenario_exception', r['stderr'][-2000:]))
    rec.case()
    rec.count('real:death_scenarios')
    kind = p['job_kind']
    attrs = {'lane': 'real', 'job_kind': kind, 'cause': p['how'].split(':')[0],
             'point': p['point'], 'external': p['external'], 'chunked': p.get('chunk', 1) > 1}
    if r['status'] != 'ok':
        rec.violation('host_process_died' if r['status'] == 'died' else 'pool_hung_after_worker_death',
                      attrs, rc=r['rc'], obs=obs, stderr=r['stderr'][-4000:], params=p)
        return
    oc = obs['outcome']
    # did the parent notice the death (reap) before it processed the ACK?
    t_down = next((e['t'] for e in ev if e['k'] == 'process_down'
                   and e.get('wpid') == obs.get('victim')), None)
    attrs['ack_after_reap'] = bool(t_down is not None and obs.get('accept_t') is not None
                                   and obs['accept_t'] > t_down)
    if attrs['ack_after_reap']:
        rec.count('real:ack_after_reap')
    T = 10.0 if kind == 'map' else p['T_job']
    t_dying = next((e['t'] for e in ev if e['k'] == 'task_dying'), None)
    want = human_status(p['how'])
    if kind in ('apply', 'map'):
        if oc[0] == 'unresolved':
            rec.violation('loss_never_reported', attrs, params=p, obs=obs)
        elif not (oc[0] == 'exc' and oc[1] == 'WorkerLostError'):
            rec.violation('lost_job_wrong_outcome', attrs, outcome=oc, params=p)
        else:
            rec.count('real:losses_reported')
            if not _names(oc[2], want):
                rec.violation('loss_message_wrong_status', attrs, msg=oc[2], want=want)
            if obs.get('job_id') is not None and ('Job: %d' % obs['job_id']) not in oc[2]:
                rec.violation('loss_message_wrong_job', attrs, msg=oc[2], job=obs['job_id'])
            if t_dying is not None:
                dt = obs['t_resolved'] - t_dying
                if dt < T - 0.02:
                    rec.violation('loss_reported_before_grace_period', attrs, dt=dt, T=T, params=p)
                if dt > T + 1.6 + 6.0:
                    rec.violation('loss_reported_late', attrs, dt=dt, T=T,
                                  worst_stall=obs.get('worst_stall'))
                rec.maxi('max:loss_latency_over_T_ms', int(1000 * (dt - T)))
    else:
        # imap / imap_unordered over three parts, part 1 dies: the consumer gets
        # the other two values and one WorkerLostError (ordered: at position 1),
        # no earlier than the grace period after the death, and the iterator ends
        items = oc[1] if oc[0] == 'items' else []
        lost = [x for x in items if x[0] == 'exc' and x[1] == 'WorkerLostError']
        vals = [['ok', ['v', 'i.0']], ['ok', ['v', 'i.2']]]
        shape = [x[:2] if x[0] == 'ok' else [x[0], x[1]] for x in items]
        if [x for x in items if x[0] in ('timeout', 'stuck')] or not lost:
            rec.violation('loss_never_reported', attrs, params=p, items=items)
        else:
            rec.count('real:losses_reported')
            rec.count('real:imap_losses_reported')
            want_shape = [vals[0], ['exc', 'WorkerLostError'], vals[1]]
            if p.get('chunk', 1) > 1:
                # chunk granularity: the chunk holding the dying item fails as a
                # whole and the generator ends there; what came before is the
                # job's own values
                rec.count('real:chunked_imap_losses')
                k = shape.index(['exc', 'WorkerLostError'])
                own = [['ok', ['v', 'i.%d' % i]] for i in range(2 * p['chunk'])]
                if any(x not in own for x in shape[:k]):
                    rec.violation('lost_job_wrong_outcome', attrs, outcome=items, params=p)
            elif (shape != want_shape) if kind == 'imap' else \
                    (sorted(map(repr, shape)) != sorted(map(repr, want_shape))):
                rec.violation('lost_job_wrong_outcome', attrs, outcome=items, params=p)
            if not _names(lost[0][2], want):
                rec.violation('loss_message_wrong_status', attrs, msg=lost[0][2], want=want)
            if t_dying is not None:
                dt = lost[0][3] - t_dying
                if dt < T - 0.02:
                    rec.violation('loss_reported_before_grace_period', attrs, dt=dt, T=T, params=p)
                if dt > T + 1.6 + 6.0:
                    rec.violation('loss_reported_late', attrs, dt=dt, T=T,
                                  worst_stall=obs.get('worst_stall'))
                rec.maxi('max:loss_latency_over_T_ms', int(1000 * (dt - T)))
    for o in obs['others']:
        rec.count('real:other_jobs')
        if o[0] != 'ok':
            rec.violation('other_job_failed', attrs, outcome=o, params=p)
    if obs['live_workers'] != p['nproc'] or obs['ups'] < p['nproc'] + 1:
        rec.violation('worker_not_replaced', attrs, live=obs['live_workers'], ups=obs['ups'],
                      nproc=p['nproc'])
    if any(o[0] != 'ok' for o in obs['probes']):
        rec.violation('later_job_not_served', attrs, probes=obs['probes'], params=p)
    rec.sig(['death', p['how'], p['point'], kind, p['external'], p['nproc'], p['others']])
    rec.sample({'params': p, 'outcome': oc})


def run_negative(spec, rec):
    p = spec['params']
    r = real.run_scenario('vmon.real_pool', 'sc_recycle', p, timeout=spec['timeout'] - 25)
    obs = r['obs']
    if r['status'] == 'scenario_error':
        raise RuntimeError('scenario error: ' + obs.get('scenario_exception', r['stderr'][-2000:]))
    rec.case()
    rec.count('real:recycle_scenarios')
    attrs = {'lane': 'real', 'negative': True, 'maxtasks': p['maxtasks']}
    if r['status'] != 'ok':
        rec.violation('host_process_died' if r['status'] == 'died' else 'pool_hung_while_recycling',
                      attrs, rc=r['rc'], obs=obs, stderr=r['stderr'][-4000:], params=p)
        return
    for job, got in obs['results']:
        txt = repr(got)
        if 'WorkerLostError' in txt:
            rec.violation('loss_reported_although_worker_finished_its_work',
                          dict(attrs, job_kind=job['kind']), got=got, params=p)
        elif got[0] == 'exc' or (got[0] == 'items' and any(x[0] != 'ok' for x in got[1])):
            rec.violation('job_failed_because_of_recycling', dict(attrs, job_kind=job['kind']),
                          got=got, params=p)
    rec.sig(['recycle-negative', p['maxtasks']])


def run_after_close(spec, rec):
    p = spec['params']
    r = real.run_scenario('vmon.real_pool', 'sc_death_after_close', p, timeout=spec['timeout'] - 25)
    obs, ev = r['obs'], r['events']
    if r['status'] == 'scenario_error':
        raise RuntimeError('scenario error: ' + obs.get('scenario_exception', r['stderr'][-2000:]))
    rec.case()
    rec.count('real:death_after_close_scenarios')
    attrs = {'lane': 'real', 'after_close': True, 'cause': p['how'].split(':')[0],
             'last_worker': p['nproc'] == 1}
    if r['status'] != 'ok':
        rec.violation('host_process_died' if r['status'] == 'died' else 'pool_hung_after_worker_death',
                      attrs, rc=r['rc'], obs=obs, stderr=r['stderr'][-4000:], params=p)
        return
    oc = obs['outcome']
    want = human_status(p['how'])
    if oc[0] == 'unresolved':
        rec.violation('loss_never_reported', attrs, params=p, obs=obs)
    elif not (oc[0] == 'exc' and oc[1] == 'WorkerLostError'):
        rec.violation('lost_job_wrong_outcome', attrs, outcome=oc, params=p)
    else:
        rec.count('real:losses_reported')
        if not _names(oc[2], want):
            rec.violation('loss_message_wrong_status', attrs, msg=oc[2], want=want)
        t_dying = next((e['t'] for e in ev if e['k'] == 'task_dying'), None)
        if t_dying is not None and obs['t_resolved'] - t_dying < p['T_job'] - 0.02:
            rec.violation('loss_reported_before_grace_period', attrs,
                          dt=obs['t_resolved'] - t_dying, T=p['T_job'])
    for o in obs['others']:
        if o[0] != 'ok':
            rec.violation('other_job_failed', attrs, outcome=o, params=p)
    if not obs['join_returned']:
        rec.violation('join_hung_after_worker_death', attrs, obs=obs, params=p)
    rec.sig(['death-after-close', p['how'], p['nproc'], p['T_job']])
    rec.sample({'params': p, 'outcome': oc, 'join_wall': obs.get('join_wall')})
