"""REAL lane of C01: mixed job histories with real faults on a real pool"""
from vmon.core import rng_for
from vmon import real


def plan(tier, seed):
    n = 8 if tier == 'quick' else 60
    return [{'lane': 'real', 'seed': seed * 1000 + i, 'timeout': 240} for i in range(n)]


def gen(rng):
    p = {'nproc': rng.choice([1, 2, 3, 4]), 'T': 1.0,
         'maxtasks': rng.choice([None, None, 3]),
         'pool_hard': rng.choice([None, None, 2.0])}
    jobs = []
    for j in range(rng.choice([4, 8, 14])):
        k = rng.choice(['ok', 'ok', 'ok', 'raise', 'map', 'imap', 'imap_u', 'unpicklable_arg',
                        'selfkill', 'overlimit', 'termjob'])
        if k == 'overlimit' and not p['pool_hard']:
            k = 'ok'
        jobs.append({'k': k, 'tag': 'J%d' % j, 'dur': rng.choice([0.01, 0.1, 0.3]),
                     'n': rng.choice([1, 3, 6]), 'how': rng.choice(['sig:9', 'exit:1', 'sig:11'])})
    p['jobs'] = jobs
    return p


def run_spec(spec, rec):
    rng = rng_for(spec['seed'], 'c01real')
    p = gen(rng)
    r = real.run_scenario('vmon.real_c01_sc', 'sc_mixed', p, timeout=spec['timeout'] - 25)
    obs = r['obs']
    if r['status'] == 'scenario_error':
        raise RuntimeError('scenario error: ' + obs.get('scenario_exception', r['stderr'][-2000:]))
    rec.case()
    rec.count('real:mixed_scenarios')
    attrs = {'lane': 'real'}
    if r['status'] != 'ok':
        rec.violation('host_process_died' if r['status'] == 'died' else 'pool_hung', attrs, rc=r['rc'],
                      obs=obs, stderr=r['stderr'][-4000:], params=p)
        return
    kinds = set()
    for rj in obs['jobs']:
        k, tag, oc, cb = rj['k'], rj['tag'], rj['outcome'], rj['cb']
        kinds.add(k)
        rec.count('real:jobs')
        a = dict(attrs, job=k)
        if cb['ok'] + cb['err'] > 1:
            rec.violation('callbacks_fired_more_than_once', a, job_=rj)
        if rj['stable'] is False:
            rec.violation('outcome_changed_after_observable', a, job_=rj)
        if k not in ('imap', 'imap_u', 'map') and p['pool_hard'] and oc[0] == 'exc' \
                and oc[1] == 'TimeLimitExceeded' and k != 'overlimit':
            # legal: the result (or the loss) was beaten by the pool's hard limit
            rec.count('real:hard_limit_won_the_race')
            continue
        if oc[0] == 'unresolved' or (oc[0] == 'items' and (
                oc[1][-1:] == [['stuck']] or ['exc', 'TimeoutError'] in oc[1])):
            if k not in ('imap', 'imap_u'):
                rec.violation('job_never_resolved', a, job_=rj, params=p)
            continue
        if k == 'ok':
            good = oc == ['ok', ['v', tag]]
        elif k == 'raise':
            good = oc[0] == 'exc' and oc[1] == 'TaskError' and tag in oc[2]
        elif k == 'map':
            good = oc == ['ok', [['v', '%s.%d' % (tag, i)] for i in range(rj['n'])]]
        elif k in ('imap', 'imap_u'):
            vals = [['ok', ['v', '%s.%d' % (tag, i)]] for i in range(rj['n'])]
            good = oc[0] == 'items' and sorted(map(repr, oc[1])) == sorted(map(repr, vals)) and \
                (k == 'imap_u' or oc[1] == vals)
        elif k == 'unpicklable_arg':
            good = oc[0] == 'exc' and oc[1] not in ('WorkerLostError', 'TimeLimitExceeded', 'TaskError')
        elif k == 'selfkill':
            good = oc[0] == 'exc' and oc[1] == 'WorkerLostError' and ('Job: %d' % rj['jid']) in oc[2]
        elif k == 'overlimit':
            good = oc[0] == 'exc' and oc[1] == 'TimeLimitExceeded'
        elif k == 'termjob' and rj.get('term_issued') is False:
            # not accepted within 15 s on a loaded machine: terminate_job was never
            # called, the job is an ordinary one
            rec.count('real:terminate_job_not_issued')
            good = oc == ['ok', ['v', tag]]
        elif k == 'termjob':
            good = oc[0] == 'exc' and oc[1] == 'Terminated'
            if not good and oc == ['ok', ['v', tag]]:
                # the job came to its own end although terminate_job had been
                # called (seen about once in 100 scenarios at load average > 60,
                # never on a replay): for C01 that is still one outcome, its own;
                # whether the signal stops the task is C08's question
                rec.anomaly('terminate_job_had_no_effect', job_=rj)
                good = True
        if not good:
            rec.violation('job_outcome_not_its_own', a, job_=rj, params=p)
    if obs.get('cache_left'):
        rec.violation('job_cache_not_empty_at_quiescence',
                      dict(attrs, send_failed='unpicklable_arg' in kinds), left=obs['cache_left'])
    rec.sig(['mixed', p['nproc'], p['maxtasks'], p['pool_hard'], sorted(kinds)])
    rec.sample({'params': p, 'outcomes': [[j['k'], j['outcome'][:2]] for j in obs['jobs']]})
