"""task functions executed by real pool workers (importable by fork, spawn
and forkserver children).  Every task logs what it sees to the event log."""
import os
import signal
import sys
import time

from vmon.evlog import log


def t_value(tag, dur=0.0, ret=None):
    log('task_start', tag=tag)
    if dur:
        time.sleep(dur)
    log('task_end', tag=tag)
    return ('v', tag) if ret is None else ret


def t_maybe(tag, dur=0.0, fail=False):
    """like t_value; raises TaskError after the work when `fail` is set"""
    log('task_start', tag=tag)
    if dur:
        time.sleep(dur)
    log('task_end', tag=tag)
    if fail:
        raise TaskError(tag)
    return ('v', tag)


def t_identity(x):
    return x


def t_tagged(x):
    log('task_start', tag=repr(x)[:80])
    return ('r', x)


class TaskError(Exception):
    pass


def t_raise(tag, exc='TaskError', dur=0.0):
    log('task_start', tag=tag)
    if dur:
        time.sleep(dur)
    log('task_raise', tag=tag, exc=exc)
    cls = {'TaskError': TaskError, 'KeyError': KeyError, 'ValueError': ValueError,
           'KeyboardInterrupt': KeyboardInterrupt, 'SystemExit': SystemExit,
           'GeneratorExit': GeneratorExit}[exc]
    raise cls(tag)


def _die(how):
    try:
        import resource
        resource.setrlimit(resource.RLIMIT_CORE, (0, 0))
    except Exception:
        pass
    if how.startswith('sig:'):
        s = int(how[4:])
        try:
            signal.signal(s, signal.SIG_DFL)
        except (OSError, ValueError, RuntimeError):
            pass
        os.kill(os.getpid(), s)
        time.sleep(30)
    elif how.startswith('exit:'):
        os._exit(int(how[5:]))
    elif how == 'abort':
        os.abort()
    raise RuntimeError('bad death cause %r' % how)


def t_selfkill(tag, how, point='mid', delay=0.1):
    """die at a chosen crash point inside task execution"""
    log('task_start', tag=tag, how=how, point=point)
    if point == 'entry':
        log('task_dying', tag=tag)
        _die(how)
    elif point == 'mid':
        time.sleep(delay)
        log('task_dying', tag=tag)
        _die(how)
    elif point == 'handler':
        try:
            raise ValueError('inner')
        except ValueError:
            time.sleep(delay)
            log('task_dying', tag=tag)
            _die(how)
    elif point == 'finally':
        try:
            time.sleep(delay)
        finally:
            log('task_dying', tag=tag)
            _die(how)
    elif point == 'before_return':
        time.sleep(delay)
        log('task_dying', tag=tag)
        _die(how)
        return ('v', tag)


def t_gate(tag, gatefile, maxwait=60.0, ret=None):
    """run until the harness creates `gatefile` (phase control)"""
    log('task_start', tag=tag)
    t_end = time.monotonic() + maxwait
    while not os.path.exists(gatefile) and time.monotonic() < t_end:
        time.sleep(0.01)
    log('task_end', tag=tag)
    return ('v', tag) if ret is None else ret


def t_ignore_term(tag, dur):
    signal.signal(signal.SIGTERM, signal.SIG_IGN)
    log('task_start', tag=tag)
    t_end = time.monotonic() + dur
    while time.monotonic() < t_end:
        time.sleep(0.05)
    log('task_end', tag=tag)
    return ('v', tag)


def t_catch_soft(tag, dur, catch=True, step=0.02):
    """counts the SoftTimeLimitExceeded raised inside it"""
    from billiard.exceptions import SoftTimeLimitExceeded
    log('task_start', tag=tag)
    seen = 0
    t_end = time.monotonic() + dur
    while True:
        # the whole loop is inside the try: the signal can arrive at any bytecode
        try:
            while time.monotonic() < t_end:
                time.sleep(step)
            break
        except SoftTimeLimitExceeded:
            seen += 1
            log('soft_seen', tag=tag, n=seen)
            if not catch:
                raise
    log('task_end', tag=tag, soft_seen=seen)
    return ('soft', tag, seen)


def t_catch_base(tag, dur):
    """keeps going whatever is raised inside it"""
    log('task_start', tag=tag)
    caught = []
    t_end = time.monotonic() + dur
    while time.monotonic() < t_end:
        try:
            time.sleep(0.05)
        except BaseException as exc:
            caught.append(type(exc).__name__)
            log('base_caught', tag=tag, exc=type(exc).__name__)
    log('task_end', tag=tag)
    return ('v', tag, caught)


def t_busy(tag, dur):
    """pure-Python loop (no C-level sleep)"""
    log('task_start', tag=tag)
    t_end = time.monotonic() + dur
    x = 0
    while time.monotonic() < t_end:
        x += 1
    log('task_end', tag=tag)
    return ('v', tag)


def t_alloc(tag, mb):
    log('task_start', tag=tag)
    blob = bytearray(mb * 1024 * 1024)
    for i in range(0, len(blob), 4096):
        blob[i] = 1
    t_alloc.keep = blob
    log('task_end', tag=tag)
    return ('v', tag)


def t_pid(tag, dur=0.0):
    log('task_start', tag=tag)
    if dur:
        time.sleep(dur)
    log('task_end', tag=tag)
    return ('pid', tag, os.getpid())


def on_exit_cb(pid, exitcode):
    log('on_process_exit', wpid=pid, exitcode=exitcode)


def init_touch_signals(how):
    """a pool initializer that sets up signal handling of its own for the
    signals an application commonly claims (as Celery's process initializer
    does): whatever it does, the pool's own handlers must be in force once the
    worker takes jobs"""
    log('initializer_signals', how=how)
    if how == 'dfl':
        for s in (signal.SIGUSR1, signal.SIGTERM):
            signal.signal(s, signal.SIG_DFL)
    elif how == 'ign':
        signal.signal(signal.SIGUSR1, signal.SIG_IGN)
    elif how == 'faulthandler':
        import faulthandler
        faulthandler.register(signal.SIGUSR1, file=open(os.devnull, 'w'), all_threads=False)


def init_exit_immediately(code=3):
    log('initializer_exit')
    os._exit(code)


def t_in_handler(tag, dur):
    """spends its time inside its own exception handler (for an unrelated
    error) - where a termination signal then arrives"""
    log('task_start', tag=tag)
    try:
        raise ValueError('unrelated')
    except ValueError:
        t_end = time.monotonic() + dur
        while time.monotonic() < t_end:
            time.sleep(0.05)
    log('task_end', tag=tag)
    return ('v', tag)


class Wrapped(Exception):
    pass


def t_translate(tag, dur):
    """turns whatever interrupts it into its own exception type (as a
    `finally`/`__exit__` that raises, or `except BaseException: raise X`)"""
    log('task_start', tag=tag)
    try:
        t_end = time.monotonic() + dur
        while time.monotonic() < t_end:
            time.sleep(0.05)
    except BaseException as exc:
        log('task_translating', tag=tag, exc=type(exc).__name__)
        raise Wrapped(tag) from exc
    log('task_end', tag=tag)
    return ('v', tag)


class SlowPickle:
    """a result that takes `nap` seconds to serialise (the worker is then in
    the middle of sending its result); naps in short slices so that a signal
    is acted upon at once"""

    def __init__(self, tag, nap):
        self.tag, self.nap = tag, nap

    def __reduce__(self):
        log('result_pickling', tag=self.tag)
        t_end = time.monotonic() + self.nap
        while time.monotonic() < t_end:
            time.sleep(0.05)
        return (tuple, (('v', self.tag),))


def t_slow_result(tag, nap):
    log('task_start', tag=tag)
    log('task_end', tag=tag)
    return SlowPickle(tag, nap)
