"""Helpers for check C15 (shared ctypes values).  Everything that must be
importable by spawn/forkserver children lives here: the type table, the value
generators, the reference-model helpers (private ctypes objects built with the
same constructor arguments) and the child-process entry points.

Nothing in here decides a verdict: children only *observe* (read values, read
raw bytes, time an accessor) and report to the parent over a pipe; the oracle
runs in the spec process (vmon/checks/c15.py)."""
import ctypes
import os
import platform
import struct
import time
import traceback
from ctypes import (Structure, Array, c_bool, c_byte, c_char, c_double,
                    c_float, c_int, c_int8, c_int16, c_int32, c_int64, c_long,
                    c_longdouble, c_short, c_size_t, c_ubyte, c_uint, c_uint8,
                    c_uint16, c_uint32, c_uint64, c_ulong, c_ulonglong,
                    c_ushort, c_wchar)


class Point(Structure):
    _fields_ = [('x', c_int), ('y', c_int)]


class Padded(Structure):           # 7 + 6 bytes of padding
    _fields_ = [('c', c_char), ('d', c_double), ('h', c_short),
                ('arr', c_int * 3)]


class Nested(Structure):
    _fields_ = [('p', Point), ('tag', c_char * 5), ('f', c_float),
                ('q', c_ulonglong)]


# reference table for the type codes (independent of billiard's own table)
TYPECODES = {
    'c': c_char, 'u': c_wchar, 'b': c_byte, 'B': c_ubyte, 'h': c_short,
    'H': c_ushort, 'i': c_int, 'I': c_uint, 'l': c_long, 'L': c_ulong,
    'f': c_float, 'd': c_double,
}
CTYPES = {
    'int8': c_int8, 'uint8': c_uint8, 'int16': c_int16, 'uint16': c_uint16,
    'int32': c_int32, 'uint32': c_uint32, 'int64': c_int64, 'uint64': c_uint64,
    'bool': c_bool, 'float': c_float, 'double': c_double,
    'longdouble': c_longdouble, 'size_t': c_size_t, 'char': c_char,
    'wchar': c_wchar, 'Point': Point, 'Padded': Padded, 'Nested': Nested,
    'int*4': c_int * 4, 'char*8': c_char * 8, 'Point*2': Point * 2,
}
SIMPLE_KEYS = list(TYPECODES) + ['int8', 'uint8', 'int16', 'uint16', 'int32',
                                 'uint32', 'int64', 'uint64', 'bool', 'float',
                                 'double', 'longdouble', 'size_t', 'char',
                                 'wchar']
STRUCT_KEYS = ['Point', 'Padded', 'Nested']
ARRAYVAL_KEYS = ['int*4', 'char*8', 'Point*2']
ALL_KEYS = SIMPLE_KEYS + STRUCT_KEYS + ARRAYVAL_KEYS


def ctype_of(key):
    return TYPECODES[key] if key in TYPECODES else CTYPES[key]


def api_type(key):
    """what is handed to billiard: the type code itself, or the ctypes type"""
    return key if key in TYPECODES else CTYPES[key]


def tclass(key):
    if key in STRUCT_KEYS:
        return 'struct'
    if key in ARRAYVAL_KEYS:
        return 'array_type'
    if key in ('c', 'char', 'u', 'wchar'):
        return 'char'
    if key in ('f', 'd', 'float', 'double', 'longdouble'):
        return 'float'
    return 'int'


class ApiError(Exception):
    """the code under test raised"""
    def __init__(self, where, tb):
        Exception.__init__(self, where)
        self.where, self.tb = where, tb


def api(where, fn, *a, **kw):
    try:
        return fn(*a, **kw)
    except Exception:
        raise ApiError(where, traceback.format_exc()[-1800:])


# --------------------------------------------------------------------------
# values
# --------------------------------------------------------------------------

def gen(ct, rng):
    """a python value for ctypes type `ct` (tuple for structures and nested
    arrays, bytes for char arrays, str for wchar arrays)"""
    if issubclass(ct, Structure):
        return tuple(gen(ft, rng) for _n, ft in ct._fields_)
    if issubclass(ct, Array):
        et, n = ct._type_, ct._length_
        if et is c_char:
            return bytes(rng.randrange(1, 256) for _ in range(n))
        if et is c_wchar:
            return ''.join(gen(c_wchar, rng) for _ in range(n))
        return tuple(gen(et, rng) for _ in range(n))
    if ct is c_char:
        return bytes([rng.randrange(1, 256)]) if rng.random() < 0.9 else b'\0'
    if ct is c_wchar:
        r = rng.random()
        if r < 0.05:
            return '\0'
        return chr(rng.randrange(1, 0xD800) if r < 0.8
                   else rng.randrange(0xE000, 0x10FFFF))
    if ct is c_bool:
        return True if rng.random() < 0.7 else False
    if ct is c_float:
        if rng.random() < 0.1:
            return 0.0
        return struct.unpack('f', struct.pack('f', rng.uniform(-1e6, 1e6)))[0]
    if ct in (c_double, c_longdouble):
        if rng.random() < 0.1:
            return 0.0
        return rng.uniform(-1e12, 1e12)
    bits = 8 * ctypes.sizeof(ct)
    if ct(-1).value < 0:
        lo, hi = -(1 << (bits - 1)), (1 << (bits - 1)) - 1
    else:
        lo, hi = 0, (1 << bits) - 1
    r = rng.random()
    if r < 0.12:
        return lo
    if r < 0.3:
        return hi
    if r < 0.4:
        return 0
    return rng.randint(lo, hi)


def ctor_args(ct, pv, init, rng):
    """constructor arguments for RawValue(type, *args); `init` is
    none|full|partial"""
    if init == 'none':
        return ()
    if issubclass(ct, Structure):
        args = list(pv)
    elif issubclass(ct, Array):
        if ct._type_ is c_char:
            args = [bytes([b]) for b in pv]
        else:
            args = list(pv)
    else:
        return (pv,)
    if init == 'partial' and len(args) > 1:
        args = args[:rng.randrange(1, len(args))]
    return tuple(args)


def raw_of(o):
    return o.get_obj() if hasattr(o, 'get_obj') else o


def assign(o, pv, style='slice'):
    """write python value `pv` into (wrapper or raw) object `o` through the
    public interface; sets every field / element"""
    raw = raw_of(o)
    if isinstance(raw, Array):
        et, n = raw._type_, len(raw)
        if n == 0:
            return
        if et is c_char:
            if style == 'slice':
                o.raw = pv
            else:
                for i in range(n):
                    o[i] = pv[i:i + 1]
        elif style == 'slice':
            o[0:n] = pv if isinstance(pv, str) else list(pv)
        else:
            for i in range(n):
                o[i] = pv[i]
    elif isinstance(raw, Structure):
        for (name, _ft), v in zip(raw._fields_, pv):
            setattr(o, name, v)
    else:
        o.value = pv


def canon(x):
    if isinstance(x, (bytes, str, int, float, bool)) or x is None:
        return x
    if isinstance(x, (list, tuple)):
        return [canon(e) for e in x]
    if isinstance(x, Array):
        return canon(x[:])
    if isinstance(x, Structure):
        return [canon(getattr(x, n)) for n, _t in x._fields_]
    if isinstance(x, ctypes._SimpleCData):
        return x.value
    return repr(x)


def api_read(o):
    """read the whole object through the public interface (the wrapper's
    accessors when `o` is a synchronized wrapper)"""
    raw = raw_of(o)
    if isinstance(raw, Array):
        if len(raw) == 0:
            return canon(raw[:])
        return canon(o[0:len(raw)])
    if isinstance(raw, Structure):
        return [canon(getattr(o, n)) for n, _t in raw._fields_]
    return canon(o.value)


_MASKS = {}
_LD_SIG = 10 if platform.machine() in ('x86_64', 'AMD64', 'i386', 'i686') \
    else ctypes.sizeof(c_longdouble)


def mask_of(ct):
    """bytes that carry value (structure padding and the unused tail of an
    x87 long double are excluded); None when every byte counts"""
    try:
        return _MASKS[ct]
    except KeyError:
        pass
    size = ctypes.sizeof(ct)
    if issubclass(ct, Structure):
        m = bytearray(size)
        for name, ft in ct._fields_:
            d = getattr(ct, name)
            sub = mask_of(ft) or b'\xff' * d.size
            m[d.offset:d.offset + d.size] = sub
        m = bytes(m)
    elif issubclass(ct, Array):
        sub = mask_of(ct._type_)
        m = None if sub is None else sub * ct._length_
    elif ct is c_longdouble and _LD_SIG < size:
        m = b'\xff' * _LD_SIG + b'\0' * (size - _LD_SIG)
    else:
        m = None
    if m is not None and m == b'\xff' * size:
        m = None
    _MASKS[ct] = m
    return m


def raw_bytes(raw):
    n = ctypes.sizeof(raw)
    return ctypes.string_at(ctypes.addressof(raw), n) if n else b''


def masked_bytes(raw):
    b = raw_bytes(raw)
    m = mask_of(type(raw))
    if m is None or not b:
        return b
    return (int.from_bytes(b, 'little') & int.from_bytes(m, 'little')
            ).to_bytes(len(b), 'little')


def observe(o):
    """what a process sees of a shared object: value through the interface
    and the significant raw bytes"""
    raw = raw_of(o)
    return [api('read', api_read, o), masked_bytes(raw)]


def expected_after_assign(raw, pv, style):
    """reference model: a private object of the same type after the same
    assignment"""
    ref = type(raw)()
    assign(ref, pv, style)
    return [api_read(ref), masked_bytes(ref)]


def pattern(pat, n):
    """n non-zero bytes derived from pattern id `pat`"""
    if n <= 0:
        return b''
    unit = struct.pack('<QQ', (pat * 0x9E3779B97F4A7C15 + 0x1234567) % (1 << 64),
                       (pat * 0xC2B2AE3D27D4EB4F + 0x89ABCDE) % (1 << 64))
    unit = bytes((b % 255) + 1 for b in unit)
    return (unit * (n // 16 + 1))[:n]


def fill(raw, pat):
    n = ctypes.sizeof(raw)
    if n:
        ctypes.memmove(ctypes.addressof(raw), pattern(pat, n), n)


# --------------------------------------------------------------------------
# building objects from descriptors (used by the parent and, for objects
# created after the fork/spawn, by children)
# --------------------------------------------------------------------------

def build(desc, api_obj, rng, lock_ctx=None):
    """desc: {'t': key, 'form': value|array_n|array_init|copy, 'n': int,
    'init': none|full|partial, 'lock': raw|default|true|false|lock|rlock}.
    `api_obj` offers RawValue/RawArray/Value/Array (the sharedctypes module or
    a context).  Returns (obj, ref) where ref is a private ctypes object built
    by ctypes itself from the same arguments."""
    from billiard import sharedctypes as sc
    key, form = desc['t'], desc['form']
    ct, at = ctype_of(key), api_type(key)
    lk = desc.get('lock', 'raw')
    kw = {}
    if lk == 'true':
        kw['lock'] = True
    elif lk == 'false':
        kw['lock'] = False
    elif lk == 'lock':
        kw['lock'] = lock_ctx.Lock()
    elif lk == 'rlock':
        kw['lock'] = lock_ctx.RLock()
    if form == 'value':
        pv = gen(ct, rng)
        args = ctor_args(ct, pv, desc['init'], rng)
        ref = ct(*args)
        if lk == 'raw':
            obj = api('RawValue', api_obj.RawValue, at, *args)
        else:
            obj = api('Value', api_obj.Value, at, *args, **kw)
    elif form == 'array_n':
        n = desc['n']
        ref = (ct * n)()
        if lk == 'raw':
            obj = api('RawArray', api_obj.RawArray, at, n)
        else:
            obj = api('Array', api_obj.Array, at, n, **kw)
    elif form == 'array_init':
        n = desc['n']
        init = [gen(ct, rng) for _ in range(n)]
        if ct is c_char and rng.random() < 0.5:
            init = b''.join(init)
        elif ct is c_wchar and rng.random() < 0.5:
            init = ''.join(init)
        elif rng.random() < 0.3:
            init = tuple(init)
        ref = (ct * n)(*init)
        if lk == 'raw':
            obj = api('RawArray', api_obj.RawArray, at, init)
        else:
            obj = api('Array', api_obj.Array, at, init, **kw)
    elif form == 'copy':
        n = desc['n']
        if n:
            ref = (ct * n)(*[gen(ct, rng) for _ in range(n)])
        else:
            ref = ct(*ctor_args(ct, gen(ct, rng), 'full', rng))
        obj = api('copy', sc.copy, ref)
    else:
        raise ValueError(form)
    return obj, ref


def expected_type(desc):
    ct = ctype_of(desc['t'])
    if desc['form'] in ('array_n', 'array_init') or \
            (desc['form'] == 'copy' and desc['n']):
        return ct * desc['n']
    return ct


# --------------------------------------------------------------------------
# child entry points
# --------------------------------------------------------------------------

def do_access(o, accessor, pv):
    """one accessor call on a synchronized wrapper"""
    if accessor == 'value_get':
        return canon(o.value)
    if accessor == 'value_set':
        o.value = pv
    elif accessor == 'item_get':
        return canon(o[0])
    elif accessor == 'item_set':
        o[0] = pv
    elif accessor == 'slice_get':
        return canon(o[0:2])
    elif accessor == 'slice_set':
        o[0:2] = pv
    elif accessor == 'raw_get':
        return canon(o.raw)
    elif accessor == 'raw_set':
        o.raw = pv
    elif accessor.startswith('field_get:'):
        return canon(getattr(o, accessor.split(':', 1)[1]))
    elif accessor.startswith('field_set:'):
        setattr(o, accessor.split(':', 1)[1], pv)
    else:
        raise ValueError(accessor)
    return None


def vis_child(conn, k, objs, seed):
    """visibility / exclusion / allocate-after-start partner.  Commands come
    from the parent; this side only acts and reports observations."""
    from vmon.core import rng_for
    mine = []          # objects created in this process: (raw, pat, top)
    try:
        conn.send(('hello', os.getpid()))
        while True:
            msg = conn.recv()
            op = msg[0]
            if op == 'quit':
                conn.send(('bye',))
                break
            elif op == 'read':
                conn.send(('read', [observe(objs[i]) for i in msg[1]]))
            elif op == 'write':
                for i, pv, style in msg[1]:
                    api('write', assign, objs[i], pv, style)
                conn.send(('ok',))
            elif op == 'probe':
                _op, i, accessor, pv = msg
                conn.send(('about',))
                res = api(accessor, do_access, objs[i], accessor, pv)
                t_done = time.monotonic()
                conn.send(('done', t_done, res))
            elif op == 'alloc':
                # create new shared objects in *this* process, check what
                # they hold, then dirty them with this process's patterns
                from billiard import sharedctypes as sc
                import billiard
                _op, descs, tag = msg
                rng = rng_for(seed, 'alloc', k, tag)
                problems = []
                for j, desc in enumerate(descs):
                    obj, ref = build(desc, sc, rng, billiard.get_context())
                    raw = raw_of(obj)
                    if masked_bytes(raw) != masked_bytes(ref) or \
                            api('read', api_read, obj) != api_read(ref):
                        problems.append(['initial_value_wrong', desc,
                                         masked_bytes(raw)[:64],
                                         masked_bytes(ref)[:64]])
                    pat = (tag * 1000 + j) * 4 + 2 + (k % 2)
                    fill(raw, pat)
                    mine.append((raw, pat, obj))
                conn.send(('alloc_done', problems, len(mine)))
            elif op == 'alloc_verify':
                bad = []
                for j, (raw, pat, _top) in enumerate(mine):
                    n = ctypes.sizeof(raw)
                    if raw_bytes(raw) != pattern(pat, n):
                        bad.append([j, n, type(raw).__name__])
                conn.send(('alloc_verified', bad, len(mine)))
            else:
                raise ValueError(op)
    except EOFError:
        pass
    except ApiError as e:
        try:
            conn.send(('api_error', e.where, e.tb))
        except Exception:
            pass
    except BaseException:
        try:
            conn.send(('harness_error', traceback.format_exc()[-1800:]))
        except Exception:
            pass


def vis_relay(conn, k, objs, seed, method):
    """an intermediate process that creates no shared object itself: it only
    hands what it received on to a child of its own, which then serves the
    monitor over the same connection"""
    import billiard
    ctx = billiard.get_context(method)
    p = ctx.Process(target=vis_child, args=(conn, k, objs, seed))
    try:
        p.start()
    except BaseException:
        # the library refused to hand on objects it had delivered itself
        try:
            conn.send(('api_error', 'Process.start(relay)', traceback.format_exc()[-1800:]))
        except Exception:
            pass
        raise
    conn.close()
    p.join()


def rmw_loop(objs, iters, spin, locked, k, counts):
    """read-modify-write sequences on four shared targets.  locked=True: every
    sequence runs while holding the object's lock (taken in four different
    ways); locked=False is the control run on the raw objects."""
    v, arr, st, cust = objs
    n_arr = len(raw_of(arr))
    rv, rarr, rst, rcust = [raw_of(o) for o in objs]
    x = (k * 7919 + 13) & 0xffff
    for it in range(iters):
        x = (x * 75 + 74) % 65537            # tiny LCG: target/style choice
        tgt = x & 3
        sty = (x >> 2) & 3
        if not locked:
            if tgt == 0:
                t = rv.value
                for _ in range(spin):
                    pass
                rv.value = t + 1
                counts['value'] += 1
            elif tgt == 1:
                i = (x >> 4) % n_arr
                t = rarr[i]
                for _ in range(spin):
                    pass
                rarr[i] = t + 1
                counts['array:%d' % i] += 1
            elif tgt == 2:
                t = rst.x
                for _ in range(spin):
                    pass
                rst.x = t + 1
                counts['struct'] += 1
            else:
                t = rcust.value
                for _ in range(spin):
                    pass
                rcust.value = t + 1
                counts['custom'] += 1
            continue
        if tgt == 0:
            if sty == 0:
                with v.get_lock():
                    v.value += 1
            elif sty == 1:
                with v:
                    t = v.value
                    for _ in range(spin):
                        pass
                    v.value = t + 1
            elif sty == 2:
                v.acquire()
                try:
                    t = v.value
                    for _ in range(spin):
                        pass
                    v.value = t + 1
                finally:
                    v.release()
            else:
                with v.get_lock():
                    o = v.get_obj()
                    t = o.value
                    for _ in range(spin):
                        pass
                    o.value = t + 1
            counts['value'] += 1
        elif tgt == 1:
            i = (x >> 4) % n_arr
            if sty == 0:
                with arr.get_lock():
                    arr[i] += 1
            elif sty == 1:
                with arr:
                    t = arr[i]
                    for _ in range(spin):
                        pass
                    arr[i] = t + 1
            elif sty == 2:
                arr.acquire()
                try:
                    t = arr[i:i + 1][0]
                    for _ in range(spin):
                        pass
                    arr[i:i + 1] = [t + 1]
                finally:
                    arr.release()
            else:
                with arr.get_lock():
                    o = arr.get_obj()
                    t = o[i]
                    for _ in range(spin):
                        pass
                    o[i] = t + 1
            counts['array:%d' % i] += 1
        elif tgt == 2:
            if sty & 1:
                with st.get_lock():
                    st.x += 1
            else:
                with st:
                    t = st.x
                    for _ in range(spin):
                        pass
                    st.x = t + 1
            counts['struct'] += 1
        else:
            # user-supplied non-recursive Lock: accessors would self-deadlock
            # inside the lock, so the sequence works on get_obj()
            with cust.get_lock():
                o = cust.get_obj()
                t = o.value
                for _ in range(spin):
                    pass
                o.value = t + 1
            counts['custom'] += 1


def atomic_child(conn, k, phases):
    """phases: [(objs, iters, spin, locked, n_children_active)]"""
    import collections
    try:
        for (objs, iters, spin, locked, n_active) in phases:
            if k >= n_active:
                continue
            counts = collections.Counter()
            conn.send(('ready', os.getpid()))
            msg = conn.recv()
            if msg[0] != 'go':
                return
            try:
                rmw_loop(objs, iters, spin, locked, k, counts)
            except Exception:
                conn.send(('api_error', 'rmw', traceback.format_exc()[-1800:]))
                return
            conn.send(('done', dict(counts)))
        msg = conn.recv()              # quit
    except EOFError:
        pass
    except BaseException:
        try:
            conn.send(('harness_error', traceback.format_exc()[-1800:]))
        except Exception:
            pass


def fork_held_child(obj, form, conn, n):
    """started (fork) while the parent holds obj's lock: a non-blocking attempt
    must fail, then n locked read-modify-write steps"""
    lock = obj.get_lock()
    got = lock.acquire(False)
    conn.send(('nonblocking', got))
    if got:
        lock.release()

    raw = obj.get_obj()            # (the accessors take the lock themselves)

    def rd():
        return raw.value if form == 'value' else raw[0]

    def wr(x):
        if form == 'value':
            raw.value = x
        else:
            raw[0] = x
    for _ in range(n):
        with lock:
            tmp = rd()
            if _ % 50 == 0:
                time.sleep(0)
            wr(tmp + 1)
    conn.send(('done', n))
