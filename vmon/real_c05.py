"""REAL lane of C05 (hard time limit) - monitor side"""
from vmon.core import rng_for
from vmon import real

TASKS = ['c_sleep', 'python', 'ignore_term', 'in_handler', 'catch_base', 'translate']


def plan(tier, seed):
    rng = rng_for(seed, 'c05real')
    cells = []
    for nproc in (1, 2, 4):
        for (ph, jh) in ((1.0, None), (None, 1.0), (2.0, 1.0), (1.0, 2.5), (None, None), (30.0, 1.0)):
            for factor in (0.4, 9.0):
                cells.append((nproc, ph, jh, factor))
    rng.shuffle(cells)
    n = 14 if tier == 'quick' else len(cells)
    specs = []
    for i, (nproc, ph, jh, factor) in enumerate(cells[:n]):
        eff = jh if jh is not None else ph
        task = rng.choice(TASKS) if (eff and factor > 1) else 'c_sleep'
        dur = (eff * factor if factor < 1 else eff + 8.0) if eff else 1.5
        specs.append({'lane': 'real', 'timeout': 120, 'params': {
            'nproc': nproc, 'pool_hard': ph, 'job_hard': jh, 'eff_limit': eff, 'task': task,
            'dur': dur, 'over': bool(eff and factor > 1), 'siblings': i % 2 == 0, 'probes': 3}})
    # jobs waiting in the queue behind the job that runs out of time, on workers
    # whose error path is warm; the task turns whatever interrupts it into an
    # exception of its own (or just sleeps)
    for k, task in enumerate(('translate', 'c_sleep') if tier == 'quick' else
                             ('translate', 'c_sleep', 'translate', 'in_handler', 'translate')):
        specs.append({'lane': 'real', 'timeout': 120, 'params': {
            'nproc': 1 + (k // 2) % 2, 'pool_hard': None, 'job_hard': 1.0, 'eff_limit': 1.0,
            'task': task, 'dur': 9.0, 'over': True, 'siblings': False, 'probes': 3,
            'warm': True, 'queued_behind': 2}})
    # finished in time, slow result callback: the limit's instant passes while
    # the callback runs and the worker is busy with the next job
    for nproc in (1, 2) if tier == 'quick' else (1, 1, 2, 3):
        specs.append({'lane': 'real', 'timeout': 120, 'params': {
            'nproc': nproc, 'pool_hard': None, 'job_hard': 3.0, 'eff_limit': 3.0, 'task': 'c_sleep',
            'dur': 0.2, 'over': False, 'siblings': False, 'probes': 3, 'slow_cb': 6.0}})
    return specs


def run_spec(spec, rec):
    p = spec['params']
    r = real.run_scenario('vmon.real_pool', 'sc_hard_limit', p, timeout=spec['timeout'] - 25)
    obs = r['obs']
    if r['status'] == 'scenario_error':
        raise RuntimeError('scenario error: ' + obs.get('scenario_exception', r['stderr'][-2000:]))
    rec.case()
    rec.count('real:scenarios')
    attrs = {'lane': 'real', 'task': p['task'], 'over_limit': p['over'], 'nproc': p['nproc'],
             'siblings': p['siblings'], 'slow_callback': bool(p.get('slow_cb')),
             'queued_behind': bool(p.get('queued_behind'))}
    if r['status'] == 'died':
        rec.violation('host_process_died', attrs, rc=r['rc'], stderr=r['stderr'][-3000:], params=p)
        return
    if r['status'] == 'hang':
        rec.violation('pool_hung_after_hard_limit', attrs, obs=obs, stacks=r['stderr'][-5000:], params=p)
        return
    oc = obs['outcome']
    eff = p['eff_limit']
    if p['over']:
        rec.count('real:over_limit_jobs')
        if oc[0] != 'exc' or oc[1] != 'TimeLimitExceeded':
            rec.violation('over_limit_job_not_failed_with_time_limit', attrs, outcome=oc, params=p,
                          worst_stall=obs.get('worst_stall'))
        else:
            if oc[2] != repr((eff,)):
                rec.violation('time_limit_wrong_value', attrs, outcome=oc, eff=eff)
            dt = obs.get('t_accept_to_resolution')
            if dt is not None and dt < eff - 0.05:
                rec.violation('time_limit_fired_before_expiry', attrs, dt=dt, eff=eff)
            if dt is not None and dt > eff + 1.0 + 8.0:
                rec.violation('time_limit_fired_late', attrs, dt=dt, eff=eff,
                              worst_stall=obs.get('worst_stall'))
            if obs.get('victim_state') not in (None, 'Z'):
                rec.violation('worker_alive_after_hard_limit', attrs, state=obs.get('victim_state'),
                              waited=obs.get('victim_gone_after'), params=p)
            else:
                rec.count('real:victims_gone')
            if [False, eff] not in obs.get('timeout_cb', []):
                rec.violation('timeout_callback_missing_or_wrong', attrs, calls=obs.get('timeout_cb'))
            if p['task'] == 'ignore_term':
                rec.count('real:lingering_killed')
    else:
        rec.count('real:in_limit_jobs')
        if oc[0] != 'ok':
            rec.violation('in_limit_or_unlimited_job_failed', attrs, outcome=oc, params=p)
        if obs.get('timeout_cb'):
            rec.violation('timeout_callback_for_in_limit_job', attrs, calls=obs['timeout_cb'], params=p)
    if p.get('slow_cb'):
        rec.count('real:slow_callback_scenarios')
        if obs.get('follower', ['?'])[0] != 'ok':
            rec.violation('next_job_on_worker_disturbed', attrs, follower=obs.get('follower'), params=p)
        if obs.get('victim_state_end') in (None, 'Z'):
            rec.violation('worker_killed_for_in_limit_job', attrs, state=obs.get('victim_state_end'),
                          params=p)
    for kind, got in obs.get('siblings', []):
        rec.count('real:sibling_jobs')
        good = (got[0] == 'ok' and len(got[1]) == 3) if kind == 'map' else \
            (got[0] == 'items' and len(got[1]) == 2 and all(x[0] == 'ok' for x in got[1]))
        if not good:
            rec.violation('map_or_imap_job_timed_out_or_broken', dict(attrs, job_kind=kind),
                          got=got, params=p)
    if p.get('queued_behind'):
        rec.count('real:jobs_queued_behind_timed_out_job', p['queued_behind'])
        if any(o[0] != 'ok' for o in obs.get('queued', [['missing']])):
            rec.violation('job_queued_behind_timed_out_job_not_served', attrs,
                          queued=obs.get('queued'), params=p)
    bad = [o for o in obs.get('probes', []) if o[0] != 'ok']
    if bad:
        rec.violation('later_job_not_served', attrs, probes=obs.get('probes'), params=p)
    elif p['over'] and any(o[1][2] == obs.get('victim') for o in obs['probes']):
        rec.violation('timed_out_worker_still_serving', attrs, probes=obs['probes'])
    rec.sig(['hard', p['nproc'], p['pool_hard'], p['job_hard'], p['task'], p['over'], p['siblings']])
    rec.sample({'params': p, 'outcome': oc, 'accept_to_resolution': obs.get('t_accept_to_resolution')})
