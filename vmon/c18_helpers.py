"""Functions for C18 that must be importable by spawn/forkserver children."""
import hashlib


def child_connect_with_inherited_key(address, family, tag, *_gate):
    """Runs in a real child process: authenticate to the parent's Listener
    with the authkey this process *inherited* (never passed as an argument),
    then report a hash of it and its type over the authenticated connection."""
    from billiard import current_process
    from billiard.connection import Client
    k = current_process().authkey
    c = Client(address, family=family, authkey=k)
    c.send_bytes(tag + hashlib.sha256(bytes(k)).digest() +
                 type(k).__name__.encode())
    c.close()


# A failpoint carried by the payload: an instance of Gate travels in the
# Process args, so its __reduce__ runs in the parent exactly while the parent
# thread is inside the "spawning" window (between set_spawning_popen(popen)
# and set_spawning_popen(None)).  The harness sets GATE_HOOK to let another
# thread try to pickle a key at that very moment.
GATE_HOOK = None


class Gate(object):
    def __reduce__(self):
        hook = GATE_HOOK
        if hook is not None:
            hook()
        return (int, (0,))
