#!/bin/bash
# offline setup: nothing to build (pure Python harness, repo is pure Python);
# verify the interpreter and that billiard imports from /repo.
set -e
cd "$(dirname "$0")"
mkdir -p evidence replays
PYTHONDONTWRITEBYTECODE=1 /venv/bin/python - <<'PY'
import sys
sys.path.insert(0, '/repo')
import billiard, psutil
assert billiard.__file__.startswith('/repo/'), billiard.__file__
print('setup ok: python', sys.version.split()[0], 'billiard', billiard.__version__)
PY
